// Shared by the tls / junos_local / ssh framing harnesses (textually included).
//
// Stream = message 1 ++ message 2, each = payload (0..=2 bytes over {x, ], >}) ++ "]]>]]>".
// The stream is cut into 1..=4 non-empty chunks at symbolic positions; chunk k is what the
// k-th read (or SSH data packet) delivers.

pub const MARK: &[u8] = b"]]>]]>";
pub const MAX_STREAM: usize = 16;

pub struct Plan {
    pub stream: [u8; MAX_STREAM],
    pub total: usize,
    /// end offset of message 1 and message 2 in the stream
    pub m1: usize,
    pub m2: usize,
    /// cut[k] = end offset of chunk k; chunks = cut[0..n]
    pub cut: [usize; 4],
    pub n: usize,
}

fn any_payload_byte() -> u8 {
    let c: u8 = kani::any();
    match c % 3 {
        0 => b'x',
        1 => b']',
        _ => b'>',
    }
}

pub fn any_plan(two_messages: bool) -> Plan {
    any_plan_bounded(two_messages, 2, 4)
}

/// `max_payload` <= 2 payload bytes per message, 1..=`max_chunks` (<= 4) chunks.
pub fn any_plan_bounded(two_messages: bool, max_payload: usize, max_chunks: usize) -> Plan {
    let p1: usize = kani::any();
    kani::assume(p1 <= max_payload);
    let p2: usize = kani::any();
    kani::assume(p2 <= max_payload);
    let mut stream = [0u8; MAX_STREAM];
    let mut i = 0;
    let mut k = 0;
    while k < 2 {
        if k < p1 {
            stream[i] = any_payload_byte();
            i += 1;
        }
        k += 1;
    }
    k = 0;
    while k < 6 {
        stream[i] = MARK[k];
        i += 1;
        k += 1;
    }
    let m1 = i;
    if two_messages {
        k = 0;
        while k < 2 {
            if k < p2 {
                stream[i] = any_payload_byte();
                i += 1;
            }
            k += 1;
        }
        k = 0;
        while k < 6 {
            stream[i] = MARK[k];
            i += 1;
            k += 1;
        }
    }
    let m2 = i;
    let total = i;
    // the payload must not itself complete a delimiter early (the protocol forbids the
    // delimiter inside a message; with payload alphabet {x,],>} and <= 2 payload bytes an early
    // "]]>]]>" needs payload "]]>"-like prefixes, excluded here by construction check)
    let n: usize = kani::any();
    kani::assume(n >= 1 && n <= max_chunks);
    let mut cut = [0usize; 4];
    let mut prev = 0usize;
    k = 0;
    while k < 4 {
        if k < n {
            let c: usize = kani::any();
            kani::assume(c > prev && c <= total);
            if k + 1 == n {
                kani::assume(c == total);
            }
            cut[k] = c;
            prev = c;
        } else {
            cut[k] = total;
        }
        k += 1;
    }
    Plan { stream, total, m1, m2, cut, n }
}

/// index of the chunk that delivers stream byte `pos - 1`
pub fn chunk_of(plan: &Plan, pos: usize) -> usize {
    let mut k = 0;
    while k < 4 {
        if k < plan.n && plan.cut[k] >= pos {
            return k;
        }
        k += 1;
    }
    plan.n
}

/// first position (end offset) at which "]]>]]>" is complete in the stream, searching from `from`
pub fn first_marker_end(plan: &Plan, from: usize) -> Option<usize> {
    let mut i = from;
    while i + 6 <= plan.total {
        let mut j = 0;
        let mut ok = true;
        while j < 6 {
            if plan.stream[i + j] != MARK[j] {
                ok = false;
            }
            j += 1;
        }
        if ok {
            return Some(i + 6);
        }
        i += 1;
    }
    None
}

"""Slicer for C19: lifts the back-off / interval statements of `Loop::start` (junos-agent/src/task.rs)
out of the `async fn` (whose generator embeds the whole Updater::run future and does not fit CBMC,
DESIGN.md 9.7) into plain functions with the *verbatim* statement text of the current source.

What is taken, by brace matching on the current text of task.rs:
  * the initialiser of `let mut backoff = <expr>;` in Loop::start,
  * the argument of `time::interval(<expr>)`,
  * the bodies of the `Ok(()) => {..}` and `Err(err) => {..}` arms of
    `match handle_task(tokio::spawn(job)).await`, minus `tracing::…!(…)` statements,
  * the bodies of the sighup / sigint / sigterm arms (`_ = sighup.recv() => {..}` ..), minus tracing.
`self.period` is spelled `period` in the slice (the only textual change).  If the text does not have
this shape the slicer raises, the build has no slice module and the harnesses are reported
INCONCLUSIVE (never as a pass)."""
import re


def _block(text, start):
    """text[start] == '{' -> (body, index after the closing brace)"""
    assert text[start] == "{", text[start:start + 20]
    depth = 0
    for i in range(start, len(text)):
        if text[i] == "{":
            depth += 1
        elif text[i] == "}":
            depth -= 1
            if depth == 0:
                return text[start + 1:i], i + 1
    raise ValueError("unbalanced braces")


def _statements(body):
    out, depth, cur = [], 0, ""
    for ch in body:
        cur += ch
        if ch in "({[":
            depth += 1
        elif ch in ")}]":
            depth -= 1
        elif ch == ";" and depth == 0:
            out.append(cur.strip())
            cur = ""
    if cur.strip():
        out.append(cur.strip())
    return [s for s in out if not re.match(r"tracing\s*::", s)]


def _semi(stmt):
    return stmt if stmt.endswith(";") or stmt.endswith("}") else stmt + ";"


def _arm(text, pattern):
    m = re.search(pattern, text)
    if not m:
        raise ValueError(f"arm not found: {pattern}")
    body, _ = _block(text, text.index("{", m.end() - 1))
    return _statements(body)


def slice_task(text):
    m = re.search(r"async\s+fn\s+start\s*\(\s*self\s*\)", text)
    if not m:
        raise ValueError("Loop::start not found")
    body, _ = _block(text, text.index("{", m.end()))
    init = re.search(r"let\s+mut\s+backoff\s*=\s*([^;]+);", body)
    interval = re.search(r"let\s+mut\s+interval\s*=\s*time::interval\(([^;]+)\)\s*;", body)
    if not init or not interval:
        raise ValueError("backoff / interval initialisers not found")
    # the match on the job's outcome: the first `match <expr> {` inside Loop::start whose block has
    # both an `Ok(()) =>` and an `Err(_) =>` arm (the scrutinee may be the awaited handle_task(..)
    # itself or a variable bound to it)
    match_body = None
    for mm in re.finditer(r"\bmatch\s+[^{};]+\{", body):
        cand, _ = _block(body, mm.end() - 1)
        if re.search(r"Ok\s*\(\s*\(\s*\)\s*\)\s*=>", cand) and re.search(r"Err\s*\(\s*\w+\s*\)\s*=>", cand) and "handle_task" in body:
            match_body = cand
            break
    if match_body is None:
        raise ValueError("match on the job's outcome not found")
    parts = {
        "INIT_BACKOFF": init.group(1).strip(),
        "INTERVAL_PERIOD": interval.group(1).strip(),
        "OK_ARM": "\n        ".join(_arm(match_body, r"Ok\s*\(\s*\(\s*\)\s*\)\s*=>\s*\{")),
        "ERR_ARM": "\n        ".join(_arm(match_body, r"Err\s*\(\s*\w+\s*\)\s*=>\s*\{")),
        "HUP_ARM": "\n        ".join(_arm(body, r"_\s*=\s*sighup\.recv\(\)\s*=>\s*\{")),
        "INT_ARM": "\n        ".join(_semi(x) for x in _arm(body, r"_\s*=\s*sigint\.recv\(\)\s*=>\s*\{")),
        "TERM_ARM": "\n        ".join(_semi(x) for x in _arm(body, r"_\s*=\s*sigterm\.recv\(\)\s*=>\s*\{")),
    }
    return {k: re.sub(r"\bself\s*\.\s*period\b", "period", v) for k, v in parts.items()}


def generate(task_rs_text, template_text):
    parts = slice_task(task_rs_text)
    out = template_text
    for k, v in parts.items():
        out = out.replace("/*@%s@*/" % k, v)
    return out, parts


if __name__ == "__main__":
    import sys, json
    print(json.dumps(slice_task(open(sys.argv[1]).read()), indent=1))

//! Model of `quick_xml::reader::NsReader` over an event tape (see crate docs).
use std::borrow::Cow;
use std::ops::Range;

use crate::errors::{Error, Result};
use crate::events::{BytesCData, BytesDecl, BytesEnd, BytesStart, BytesText, Event};
use crate::name::{LocalName, Namespace, QName, ResolveResult};
use crate::tape::{self, kind, ns, Cell, Cursor, Inline, NS_CAP, NS_TABLE, NS_URIS};

pub type Span = Range<usize>;

/// What `read_text` returns for mixed content under Kani.
pub const MIXED_SENTINEL: &str = "<mixed/>";

pub struct NsReader<R> {
    input: R,
    slot: Option<u8>,
    cur: Cursor,
    trim: bool,
    /// namespace of the element event returned last (what its `ResolveResult` borrows)
    ns_buf: Inline<NS_CAP>,
    /// the cell behind the event returned last (model-only, see `model_last_cell`)
    last: Cell,
}

impl<R> NsReader<R> {
    /// Model-only: the tape cell behind the event returned last.  Summary stubs use it to state
    /// their precondition ("called on an `<rpc-error>` start tag") in terms of the reader's own
    /// state, which is a plain local of the harness and stays a constant for symex - unlike the
    /// tag they are handed, which lives inside an enum payload (see DESIGN.md, cost rules).
    pub fn model_last_cell(&self) -> Cell {
        self.last
    }
    pub fn get_ref(&self) -> &R {
        &self.input
    }
    pub fn get_mut(&mut self) -> &mut R {
        &mut self.input
    }
    pub fn into_inner(self) -> R {
        self.input
    }
    pub fn trim_text(&mut self, val: bool) -> &mut Self {
        self.trim = val;
        self
    }
    pub fn trim_text_end(&mut self, _val: bool) -> &mut Self {
        self
    }
    pub fn expand_empty_elements(&mut self, _val: bool) -> &mut Self {
        self
    }
    pub fn check_end_names(&mut self, _val: bool) -> &mut Self {
        self
    }
    pub fn check_comments(&mut self, _val: bool) -> &mut Self {
        self
    }
    pub fn buffer_position(&self) -> usize {
        self.cur.pos * tape::MACRO_LEN + self.cur.sub
    }

    /// Namespace of an attribute name.  The key must be one the model handed out (an entry of
    /// the attribute-name table); anything else resolves as an unprefixed name.
    pub fn resolve_attribute<'n>(&self, name: QName<'n>) -> (ResolveResult<'_>, LocalName<'n>) {
        let mut i: u8 = 0;
        loop {
            let a = tape::attr_name(i);
            if std::ptr::eq(a.qname.as_ptr(), name.0.as_ptr()) && a.qname.len() == name.0.len() {
                let local = LocalName(&name.0[name.0.len() - a.local.len()..]);
                return match a.ns {
                    ns::UNBOUND => (ResolveResult::Unbound, local),
                    ns::UNKNOWN => (ResolveResult::Unknown(b""), local),
                    n => (ResolveResult::Bound(Namespace(NS_URIS[n as usize % ns::COUNT])), local),
                };
            }
            i += 1;
            if i >= 16 {
                return (ResolveResult::Unbound, LocalName(name.0));
            }
        }
    }
}

impl<'i> NsReader<&'i [u8]> {
    #[allow(clippy::should_implement_trait)]
    pub fn from_str(s: &'i str) -> Self {
        let b = s.as_bytes();
        let slot = tape::slot_of_input(b);
        Self { input: b, slot, cur: Cursor::default(), trim: false, ns_buf: Inline::EMPTY, last: Cell::NONE }
    }

    fn next_cell(&mut self) -> Option<Cell> {
        let slot = self.slot?;
        let (c, next) = tape::fetch(slot, self.cur)?;
        self.cur = next;
        self.last = c;
        Some(c)
    }

    fn event_of(&self, c: &Cell) -> Result<Event<'i>> {
        let text = || {
            let e = tape::text_entry(c.text);
            if self.trim {
                e.trimmed
            } else {
                e.raw
            }
        };
        Ok(match c.kind {
            kind::START => Event::Start(BytesStart::from_cell(self.slot.unwrap_or(0), c)),
            kind::EMPTY => Event::Empty(BytesStart::from_cell(self.slot.unwrap_or(0), c)),
            kind::END => Event::End(BytesEnd::from_id(c.name)),
            kind::TEXT => Event::Text(BytesText::from_static(text())),
            kind::COMMENT => Event::Comment(BytesText::from_static(tape::text_entry(c.text).raw)),
            kind::CDATA => Event::CData(BytesCData { inner: BytesText::from_static(tape::text_entry(c.text).raw) }),
            kind::DECL => Event::Decl(BytesDecl { inner: BytesText::from_static("xml version=\"1.0\" encoding=\"UTF-8\"") }),
            kind::PI => Event::PI(BytesText::from_static(tape::text_entry(c.text).raw)),
            kind::DOCTYPE => Event::DocType(BytesText::from_static(tape::text_entry(c.text).raw)),
            _ => return Err(Error::Injected),
        })
    }

    pub fn read_event(&mut self) -> Result<Event<'i>> {
        match self.next_cell() {
            None => Ok(Event::Eof),
            Some(c) => self.event_of(&c),
        }
    }

    pub fn read_resolved_event(&mut self) -> Result<(ResolveResult<'_>, Event<'i>)> {
        let c = match self.next_cell() {
            None => return Ok((ResolveResult::Unbound, Event::Eof)),
            Some(c) => c,
        };
        let ev = self.event_of(&c)?;
        match c.kind {
            kind::START | kind::EMPTY | kind::END => {
                if c.ns == ns::UNBOUND {
                    Ok((ResolveResult::Unbound, ev))
                } else if c.ns as usize >= ns::COUNT {
                    Ok((ResolveResult::Unknown(b""), ev))
                } else {
                    self.ns_buf = NS_TABLE[c.ns as usize];
                    Ok((ResolveResult::Bound(Namespace(self.ns_buf.as_slice())), ev))
                }
            }
            _ => Ok((ResolveResult::Unbound, ev)),
        }
    }

    /// Skip to just after the `End` matching `end` (depth counted by literal name, as the real
    /// crate does); `Err` on tokenizer error / end of tape.  Returns the number of cells
    /// skipped before that `End`.
    fn seek_end(&mut self, end: QName<'_>) -> Result<usize> {
        let end_id = tape::name_id_of(end.0);
        let same = |c: &Cell| match end_id {
            Some(id) => c.name == id,
            None => tape::name_bytes(c.name) == end.0,
        };
        let mut depth = 0usize;
        let mut skipped = 0usize;
        loop {
            match self.next_cell() {
                None => return Err(Error::UnexpectedEof),
                Some(c) => match c.kind {
                    kind::START if same(&c) => depth += 1,
                    kind::END if same(&c) => {
                        if depth == 0 {
                            return Ok(skipped);
                        }
                        depth -= 1;
                    }
                    kind::ERR => return Err(Error::Injected),
                    _ => {}
                },
            }
            skipped += 1;
        }
    }

    pub fn read_to_end(&mut self, end: QName<'_>) -> Result<Span> {
        let from = self.buffer_position();
        let _ = self.seek_end(end)?;
        Ok(from..self.buffer_position())
    }

    /// Raw source text up to the matching end tag.  Fast paths: nothing / exactly one Text
    /// cell in between; otherwise the span is rendered with [`tape::render_cells`].
    pub fn read_text(&mut self, end: QName<'_>) -> Result<Cow<'i, str>> {
        let slot = self.slot.unwrap_or(0);
        let start = self.cur;
        let first = tape::fetch(slot, start);
        let skipped = self.seek_end(end)?;
        if skipped == 0 {
            return Ok(Cow::Borrowed(""));
        }
        if skipped == 1 {
            if let Some((c, _)) = first {
                if c.kind == kind::TEXT {
                    return Ok(Cow::Borrowed(tape::text_entry(c.text).raw));
                }
            }
        }
        // slow path (mixed content).  Under Kani the content is abstracted to one sentinel
        // string: it contains `<`, like every real rendering of mixed content, so token parsers
        // reject it; distinct mixed contents are not distinguished (only `Opaque` keeps such a
        // value, and no harness compares two different ones).
        #[cfg(kani)]
        {
            let _ = (slot, start);
            Ok(Cow::Borrowed(MIXED_SENTINEL))
        }
        #[cfg(not(kani))]
        {
            let mut cells = Vec::new();
            let mut cur = start;
            let mut k = 0;
            while k < skipped {
                match tape::fetch(slot, cur) {
                    Some((c, next)) => {
                        cells.push(c);
                        cur = next;
                    }
                    None => break,
                }
                k += 1;
            }
            let t = tape::registered(slot);
            Ok(Cow::Owned(tape::render_cells(&cells, &t.attrs, false, ns::UNKNOWN)))
        }
    }
}

//! C12 (hello reader).  Child module of `message::hello`.
use super::*;
use quick_xml::events::BytesStart;
use quick_xml::tape::{self, ns, AttrName, Cell, Tape, TextEntry};

static NAMES: [&[u8]; 5] = [b"", b"hello", b"capabilities", b"capability", b"session-id"];
static TEXTS: [TextEntry; 10] = [
    TextEntry::plain(""),
    TextEntry::plain("urn:ietf:params:netconf:base:1.0"),
    TextEntry::plain("urn:ietf:params:netconf:base:1.1"),
    TextEntry::plain("1"),
    TextEntry::plain("4294967295"),
    TextEntry::plain("0"),
    TextEntry::plain("4294967296"),
    TextEntry::plain("-1"),
    TextEntry::plain("x"),
    TextEntry::plain(" c "),
];
static ATTRS: [AttrName; 1] = [AttrName { qname: b"x", local: b"x", ns: ns::UNBOUND }];

const B: u8 = ns::BASE;

/// C12: `ServerHello::read_xml` over every hello built from: capabilities element present /
/// absent with the :base:1.0 and :base:1.1 capabilities each present / absent; session-id
/// absent, present once or twice, with text from {1, 4294967295, 0, 4294967296, -1, x}.
/// Accepted iff well-formed with exactly... a valid non-zero 32-bit id; reported id and base
/// capabilities are those of the hello.
#[kani::proof]
#[kani::unwind(8)]
fn c12_server_hello_reader() {
    tape::set_tables(&NAMES, &TEXTS, &ATTRS);
    let caps_present: bool = kani::any();
    let b10: bool = kani::any();
    let b11: bool = kani::any();
    let sid_count: u8 = kani::any();
    kani::assume(sid_count <= 2);
    let sid_text: u8 = kani::any();
    kani::assume(sid_text >= 3 && sid_text <= 8);
    let sid_first: bool = kani::any();
    let mut t = Tape::EMPTY;
    let push_sid = |t: &mut Tape| {
        t.push(Cell::start(B, 4));
        t.push(Cell::text(sid_text));
        t.push(Cell::end(B, 4));
    };
    if sid_first && sid_count >= 1 {
        push_sid(&mut t);
    }
    if caps_present {
        t.push(Cell::start(B, 2));
        if b10 {
            t.push(Cell::start(B, 3));
            t.push(Cell::text(1));
            t.push(Cell::end(B, 3));
        }
        if b11 {
            t.push(Cell::start(B, 3));
            t.push(Cell::text(2));
            t.push(Cell::end(B, 3));
        }
        t.push(Cell::end(B, 2));
    }
    if !sid_first && sid_count >= 1 {
        push_sid(&mut t);
    }
    if sid_count == 2 {
        push_sid(&mut t);
    }
    t.push(Cell::end(B, 1));
    tape::register(0, t);
    let mut reader = NsReader::from_str(tape::input_for(0));
    let _ = reader.trim_text(true);
    let start = BytesStart::from_id(1);
    let res = ServerHello::read_xml(&mut reader, &start);
    let valid_id = sid_text == 3 || sid_text == 4;
    match &res {
        Ok(h) => {
            assert!(caps_present, "C12 hello: accepted without <capabilities>");
            assert!(sid_count == 1, "C12 hello: accepted with a missing or duplicated <session-id>");
            assert!(valid_id, "C12 hello: accepted with an invalid session-id (zero, out of range, negative or not a number)");
            let want: u32 = if sid_text == 3 { 1 } else { 4294967295 };
            assert!(h.session_id() == SessionId::new(want).unwrap(), "C12 hello: reported session-id differs from the hello's");
            let has10 = h.capabilities.iter().any(|c| matches!(c, Capability::Base(Base::V1_0)));
            let has11 = h.capabilities.iter().any(|c| matches!(c, Capability::Base(Base::V1_1)));
            assert!(has10 == b10 && has11 == b11, "C12 hello: reported base capabilities differ from the hello's");
        }
        Err(_) => {
            assert!(!(caps_present && sid_count == 1 && valid_id), "C12 hello: a well-formed hello with a valid session-id was rejected");
        }
    }
    kani::cover!(res.is_ok() && b10 && b11, "hello with both base versions accepted");
    kani::cover!(res.is_err() && sid_text == 5, "session-id 0 rejected");
    kani::cover!(res.is_err() && sid_count == 2, "duplicated session-id rejected");
    std::mem::forget(res);
}

//! `try_join!` and `select!` for the shapes bgpfu-rs uses (2–4 branches, irrefutable patterns).
//! The branch handler runs in the enclosing async context, as in tokio, so `break`, `?` and
//! `.await` inside handlers work.
use std::future::Future;
use std::pin::Pin;
use std::task::{Context, Poll};

pub enum MaybeDone<F: Future> {
    Fut(F),
    Done(Option<F::Output>),
}

impl<F: Future> MaybeDone<F> {
    pub fn poll_it(self: Pin<&mut Self>, cx: &mut Context<'_>) -> bool {
        // SAFETY: structural pinning of `Fut`; `Done` is only moved out of through `take`.
        unsafe {
            let this = self.get_unchecked_mut();
            match this {
                MaybeDone::Fut(f) => match Pin::new_unchecked(f).poll(cx) {
                    Poll::Ready(v) => {
                        *this = MaybeDone::Done(Some(v));
                        true
                    }
                    Poll::Pending => false,
                },
                MaybeDone::Done(_) => true,
            }
        }
    }
    pub fn take(self: Pin<&mut Self>) -> Option<F::Output> {
        unsafe {
            match self.get_unchecked_mut() {
                MaybeDone::Done(v) => v.take(),
                MaybeDone::Fut(_) => None,
            }
        }
    }
    pub fn peek_is_err<T, E>(self: Pin<&mut Self>) -> bool
    where
        F: Future<Output = Result<T, E>>,
    {
        unsafe {
            match self.get_unchecked_mut() {
                MaybeDone::Done(Some(Err(_))) => true,
                _ => false,
            }
        }
    }
}

pub enum Out2<A, B> {
    _0(A),
    _1(B),
}
pub enum Out3<A, B, C> {
    _0(A),
    _1(B),
    _2(C),
}
pub enum Out4<A, B, C, D> {
    _0(A),
    _1(B),
    _2(C),
    _3(D),
}

#[macro_export]
macro_rules! try_join {
    ($a:expr, $b:expr $(,)?) => {{
        let mut __a = ::std::pin::pin!($crate::macros::MaybeDone::Fut($a));
        let mut __b = ::std::pin::pin!($crate::macros::MaybeDone::Fut($b));
        let __start = $crate::model::start_index(2);
        ::std::future::poll_fn(|cx| {
            let mut pending = false;
            let mut k = 0;
            while k < 2 {
                let which = (__start + k) % 2;
                if which == 0 {
                    if !__a.as_mut().poll_it(cx) {
                        pending = true;
                    } else if __a.as_mut().peek_is_err() {
                        return ::std::task::Poll::Ready(Err(__a.as_mut().take().unwrap().err().unwrap()));
                    }
                } else {
                    if !__b.as_mut().poll_it(cx) {
                        pending = true;
                    } else if __b.as_mut().peek_is_err() {
                        return ::std::task::Poll::Ready(Err(__b.as_mut().take().unwrap().err().unwrap()));
                    }
                }
                k += 1;
            }
            if pending {
                ::std::task::Poll::Pending
            } else {
                ::std::task::Poll::Ready(Ok((
                    __a.as_mut().take().unwrap().ok().unwrap(),
                    __b.as_mut().take().unwrap().ok().unwrap(),
                )))
            }
        })
        .await
    }};
    ($a:expr, $b:expr, $c:expr $(,)?) => {{
        let mut __a = ::std::pin::pin!($crate::macros::MaybeDone::Fut($a));
        let mut __b = ::std::pin::pin!($crate::macros::MaybeDone::Fut($b));
        let mut __c = ::std::pin::pin!($crate::macros::MaybeDone::Fut($c));
        ::std::future::poll_fn(|cx| {
            let mut pending = false;
            if !__a.as_mut().poll_it(cx) {
                pending = true;
            } else if __a.as_mut().peek_is_err() {
                return ::std::task::Poll::Ready(Err(__a.as_mut().take().unwrap().err().unwrap()));
            }
            if !__b.as_mut().poll_it(cx) {
                pending = true;
            } else if __b.as_mut().peek_is_err() {
                return ::std::task::Poll::Ready(Err(__b.as_mut().take().unwrap().err().unwrap()));
            }
            if !__c.as_mut().poll_it(cx) {
                pending = true;
            } else if __c.as_mut().peek_is_err() {
                return ::std::task::Poll::Ready(Err(__c.as_mut().take().unwrap().err().unwrap()));
            }
            if pending {
                ::std::task::Poll::Pending
            } else {
                ::std::task::Poll::Ready(Ok((
                    __a.as_mut().take().unwrap().ok().unwrap(),
                    __b.as_mut().take().unwrap().ok().unwrap(),
                    __c.as_mut().take().unwrap().ok().unwrap(),
                )))
            }
        })
        .await
    }};
}

#[macro_export]
macro_rules! select {
    ($p0:pat = $f0:expr => $b0:block $(,)? $p1:pat = $f1:expr => $b1:block $(,)?) => {{
        let __out = {
            let mut __f0 = ::std::pin::pin!($f0);
            let mut __f1 = ::std::pin::pin!($f1);
            let __start = $crate::model::start_index(2);
            ::std::future::poll_fn(|cx| {
                let mut k = 0;
                while k < 2 {
                    match (__start + k) % 2 {
                        0 => {
                            if let ::std::task::Poll::Ready(v) = ::std::future::Future::poll(__f0.as_mut(), cx) {
                                return ::std::task::Poll::Ready($crate::macros::Out2::_0(v));
                            }
                        }
                        _ => {
                            if let ::std::task::Poll::Ready(v) = ::std::future::Future::poll(__f1.as_mut(), cx) {
                                return ::std::task::Poll::Ready($crate::macros::Out2::_1(v));
                            }
                        }
                    }
                    k += 1;
                }
                ::std::task::Poll::Pending
            })
            .await
        };
        match __out {
            $crate::macros::Out2::_0($p0) => $b0,
            $crate::macros::Out2::_1($p1) => $b1,
        }
    }};
    ($p0:pat = $f0:expr => $b0:block $(,)? $p1:pat = $f1:expr => $b1:block $(,)? $p2:pat = $f2:expr => $b2:block $(,)? $p3:pat = $f3:expr => $b3:block $(,)?) => {{
        let __out = {
            let mut __f0 = ::std::pin::pin!($f0);
            let mut __f1 = ::std::pin::pin!($f1);
            let mut __f2 = ::std::pin::pin!($f2);
            let mut __f3 = ::std::pin::pin!($f3);
            let __start = $crate::model::start_index(4);
            ::std::future::poll_fn(|cx| {
                let mut k = 0;
                while k < 4 {
                    match (__start + k) % 4 {
                        0 => {
                            if let ::std::task::Poll::Ready(v) = ::std::future::Future::poll(__f0.as_mut(), cx) {
                                return ::std::task::Poll::Ready($crate::macros::Out4::_0(v));
                            }
                        }
                        1 => {
                            if let ::std::task::Poll::Ready(v) = ::std::future::Future::poll(__f1.as_mut(), cx) {
                                return ::std::task::Poll::Ready($crate::macros::Out4::_1(v));
                            }
                        }
                        2 => {
                            if let ::std::task::Poll::Ready(v) = ::std::future::Future::poll(__f2.as_mut(), cx) {
                                return ::std::task::Poll::Ready($crate::macros::Out4::_2(v));
                            }
                        }
                        _ => {
                            if let ::std::task::Poll::Ready(v) = ::std::future::Future::poll(__f3.as_mut(), cx) {
                                return ::std::task::Poll::Ready($crate::macros::Out4::_3(v));
                            }
                        }
                    }
                    k += 1;
                }
                ::std::task::Poll::Pending
            })
            .await
        };
        match __out {
            $crate::macros::Out4::_0($p0) => $b0,
            $crate::macros::Out4::_1($p1) => $b1,
            $crate::macros::Out4::_2($p2) => $b2,
            $crate::macros::Out4::_3($p3) => $b3,
        }
    }};
}

#!/usr/bin/env python3
"""Print a markdown table of what the last run of every claimed check covered (from evidence/*.json)."""
import json
import os
import sys

sys.path.insert(0, os.path.dirname(os.path.abspath(__file__)))
import registry

VERIF = os.path.dirname(os.path.dirname(os.path.abspath(__file__)))
print("| property | tier | harness | bounds | result | symex steps | wall s |")
print("|---|---|---|---|---|---|---|")
for pid in registry.CLAIMED:
    p = os.path.join(VERIF, "evidence", pid + ".json")
    if not os.path.exists(p):
        print(f"| {pid} | - | (no evidence yet) | | | | |")
        continue
    e = json.load(open(p))
    for s in e["coverage"]["samples"]:
        print(f"| {pid} | {e['tier']} | `{s['harness']}` | {s.get('bounds', '')} | {s['status']} | {s.get('symex_steps', '')} | {s.get('wall_s', '')} |")

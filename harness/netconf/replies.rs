//! C08 / C13 / C14 harnesses for the reply readers.  Child module of `message::rpc`.
use super::*;
use crate::verif_support::*;
use quick_xml::tape::{self, Tape};
use quick_xml::events::BytesStart;

fn reader_for<'a>(slot: u8) -> NsReader<&'a [u8]> {
    let mut r = NsReader::from_str(tape::input_for(slot));
    let _ = r.trim_text(true);
    r
}

/// Build `[item]* </rpc-reply>` (the content a reply reader sees after `from_xml` consumed
/// the start tag) from `N` symbolic items, `n` of which are used.
fn content_tape<const N: usize>(items: &[Item; N], n: usize) -> Tape {
    let mut t = Tape::EMPTY;
    let mut i = 0;
    while i < N {
        if i < n {
            push_item(&mut t, items[i]);
        }
        i += 1;
    }
    reply_close(&mut t);
    t
}

const N_ITEMS: usize = 2;

use crate::message::rpc::error::verif_error as ve;

/// What the reply grammar says about a sequence of items.
struct Facts {
    has_error_sev_error: bool,
    n_rpc_errors: usize,
    sev: [u8; N_ITEMS],
    has_ok: bool,
    has_data: bool,
}

fn facts(items: &[Item; N_ITEMS], n: usize) -> Facts {
    let mut f = Facts { has_error_sev_error: false, n_rpc_errors: 0, sev: [0; N_ITEMS], has_ok: false, has_data: false };
    let mut i = 0;
    while i < N_ITEMS {
        if i < n {
            f.has_error_sev_error |= items[i].is_error_severity_error();
            if items[i].is_rpc_error() {
                f.sev[f.n_rpc_errors] = if items[i] == Item::ErrWarning { ve::SEV_WARNING } else { ve::SEV_ERROR };
                f.n_rpc_errors += 1;
            }
            f.has_ok |= items[i] == Item::Ok || items[i] == Item::OkPair;
            f.has_data |= items[i] == Item::Data;
        }
        i += 1;
    }
    f
}

fn stubbed_content_tape(items: &[Item; N_ITEMS], n: usize) -> Tape {
    let mut t = Tape::EMPTY;
    let mut i = 0;
    while i < N_ITEMS {
        if i < n {
            push_item_stubbed(&mut t, items[i]);
        }
        i += 1;
    }
    reply_close(&mut t);
    t
}

fn errs_match(errs: &Errors, f: &Facts) -> bool {
    if errs.len() != f.n_rpc_errors {
        return false;
    }
    let mut i = 0;
    let mut ok = true;
    while i < N_ITEMS {
        if i < f.n_rpc_errors {
            ok &= ve::nth_severity(errs, i) == Some(f.sev[i]);
        }
        i += 1;
    }
    ok
}

/// The item sequences of one split harness: `first == None` is the empty reply; otherwise the
/// first item is the given (concrete) kind, followed by nothing or by one symbolic item.
/// Splitting on the first item keeps every formula small (each split is decided on its own,
/// the splits run in parallel); together the splits cover every sequence of <= 2 items.
fn items_with_first(first: Option<Item>, fam: Option<Fam>) -> ([Item; N_ITEMS], usize) {
    match first {
        None => ([Item::Ok; N_ITEMS], 0),
        Some(k) => {
            let more: bool = kani::any();
            let second = match fam {
                None => Item::any(),
                Some(f) => f.member(),
            };
            ([k, second], if more { 2 } else { 1 })
        }
    }
}

/// Family of the second item of a split: items that share their element name (a window whose
/// *name* is symbolic makes every name comparison of the reader a 43-step memcmp over an
/// `ite` of pointers; within a family only the severity tag of `<rpc-error>` varies).
#[derive(Clone, Copy)]
pub enum Fam {
    Ok,
    /// `<rpc-error>` with symbolic severity
    Err,
    Data,
    OkPair,
    Comment,
    Other,
    ForeignOk,
    Text,
}

impl Fam {
    fn member(self) -> Item {
        match self {
            Fam::Ok => Item::Ok,
            Fam::Err => {
                if kani::any() {
                    Item::ErrError
                } else {
                    Item::ErrWarning
                }
            }
            Fam::Data => Item::Data,
            Fam::OkPair => Item::OkPair,
            Fam::Comment => Item::Comment,
            Fam::Other => Item::Other,
            Fam::ForeignOk => Item::ForeignOk,
            Fam::Text => Item::Text,
        }
    }
}

/// Tape for a split: every item occupies a fixed window of `WINDOW` tape positions (shorter
/// items are padded through the `skip` field of their last cell, an absent second item is a
/// NOP window).  All pushes are unconditional, so the tape length and every cursor position are
/// constants for symex: the reader's first iteration is a single path, the second one branches
/// over the symbolic window, the closing tag is concrete again and ends the loop.
fn split_tape(first: Option<Item>, items: &[Item; N_ITEMS], n: usize) -> Tape {
    let mut t = Tape::EMPTY;
    if let Some(k) = first {
        push_window(&mut t, window_stubbed(Some(k)));
        push_window(&mut t, window_stubbed(if n == 2 { Some(items[1]) } else { None }));
    }
    reply_close(&mut t);
    t
}

/// One `#[kani::proof]` per (reader body, first item).
macro_rules! split_harnesses {
    ($body:ident: $( $name:ident => ($first:expr, $fam:expr) ),* $(,)?) => {
        $(
            #[kani::proof]
            #[kani::unwind(10)]
            #[kani::stub(<crate::message::rpc::operation::Opaque as crate::message::ReadXml>::read_xml, stub_opaque_read_xml)]
            #[kani::stub(<crate::message::rpc::Error as crate::message::ReadXml>::read_xml, crate::message::rpc::error::verif_error::stub_read_xml)]
            #[kani::stub(crate::message::rpc::Errors::new, crate::message::rpc::error::verif_error::stub_errors_new)]
            #[kani::stub(crate::message::rpc::Errors::push, crate::message::rpc::error::verif_error::stub_errors_push)]
            fn $name() {
                $body($first, $fam)
            }
        )*
    };
}

/// C08, `EmptyReply` (close-session, edit-config, lock, commit, ...): every reply of up to 2
/// grammar items, split on the first item.
fn empty_reply_body(first: Option<Item>, fam: Option<Fam>) {
    use_reply_tables();
    let (items, n) = items_with_first(first, fam);
    empty_reply_check(&items, n, split_tape(first, &items, n));
    kani::cover!(first.is_none() || n == 2, "the longest reply of this split reaches the checks");
}

fn empty_reply_check(items: &[Item; N_ITEMS], n: usize, t: Tape) {
    tape::register(0, t);
    let mut reader = reader_for(0);
    let start = BytesStart::from_id(n::RPC_REPLY);
    let res = EmptyReply::read_xml(&mut reader, &start);
    let f = facts(items, n);
    match &res {
        Ok(EmptyReply::Ok) => {
            assert!(!f.has_error_sev_error, "C08 EmptyReply: a reply carrying rpc-error(error) was reported as success");
            assert!(f.has_ok, "C08 EmptyReply: success reported without <ok/>");
        }
        Ok(EmptyReply::Errs(errs)) => {
            assert!(errs_match(errs, &f), "C08 EmptyReply: reported errors are not exactly the reply's rpc-errors, in order");
        }
        Err(_) => {}
    }
    std::mem::forget(res);
}

split_harnesses!(empty_reply_body:
    c08_empty_reply_empty => (None, None),
    c08_empty_reply_ok_then_ok => (Some(Item::Ok), Some(Fam::Ok)),
    c08_empty_reply_ok_then_err => (Some(Item::Ok), Some(Fam::Err)),
    c08_empty_reply_ok_then_data => (Some(Item::Ok), Some(Fam::Data)),
    c08_empty_reply_ok_then_ok_pair => (Some(Item::Ok), Some(Fam::OkPair)),
    c08_empty_reply_ok_then_comment => (Some(Item::Ok), Some(Fam::Comment)),
    c08_empty_reply_ok_then_other => (Some(Item::Ok), Some(Fam::Other)),
    c08_empty_reply_ok_then_foreign_ok => (Some(Item::Ok), Some(Fam::ForeignOk)),
    c08_empty_reply_ok_then_text => (Some(Item::Ok), Some(Fam::Text)),
    c08_empty_reply_err_error_then_ok => (Some(Item::ErrError), Some(Fam::Ok)),
    c08_empty_reply_err_error_then_err => (Some(Item::ErrError), Some(Fam::Err)),
    c08_empty_reply_err_error_then_data => (Some(Item::ErrError), Some(Fam::Data)),
    c08_empty_reply_err_error_then_ok_pair => (Some(Item::ErrError), Some(Fam::OkPair)),
    c08_empty_reply_err_error_then_comment => (Some(Item::ErrError), Some(Fam::Comment)),
    c08_empty_reply_err_error_then_other => (Some(Item::ErrError), Some(Fam::Other)),
    c08_empty_reply_err_error_then_foreign_ok => (Some(Item::ErrError), Some(Fam::ForeignOk)),
    c08_empty_reply_err_error_then_text => (Some(Item::ErrError), Some(Fam::Text)),
    c08_empty_reply_err_warning_then_ok => (Some(Item::ErrWarning), Some(Fam::Ok)),
    c08_empty_reply_err_warning_then_err => (Some(Item::ErrWarning), Some(Fam::Err)),
    c08_empty_reply_err_warning_then_data => (Some(Item::ErrWarning), Some(Fam::Data)),
    c08_empty_reply_err_warning_then_ok_pair => (Some(Item::ErrWarning), Some(Fam::OkPair)),
    c08_empty_reply_err_warning_then_comment => (Some(Item::ErrWarning), Some(Fam::Comment)),
    c08_empty_reply_err_warning_then_other => (Some(Item::ErrWarning), Some(Fam::Other)),
    c08_empty_reply_err_warning_then_foreign_ok => (Some(Item::ErrWarning), Some(Fam::ForeignOk)),
    c08_empty_reply_err_warning_then_text => (Some(Item::ErrWarning), Some(Fam::Text)),
    c08_empty_reply_first_data => (Some(Item::Data), None),
    c08_empty_reply_ok_pair_then_ok => (Some(Item::OkPair), Some(Fam::Ok)),
    c08_empty_reply_ok_pair_then_err => (Some(Item::OkPair), Some(Fam::Err)),
    c08_empty_reply_ok_pair_then_data => (Some(Item::OkPair), Some(Fam::Data)),
    c08_empty_reply_ok_pair_then_ok_pair => (Some(Item::OkPair), Some(Fam::OkPair)),
    c08_empty_reply_ok_pair_then_comment => (Some(Item::OkPair), Some(Fam::Comment)),
    c08_empty_reply_ok_pair_then_other => (Some(Item::OkPair), Some(Fam::Other)),
    c08_empty_reply_ok_pair_then_foreign_ok => (Some(Item::OkPair), Some(Fam::ForeignOk)),
    c08_empty_reply_ok_pair_then_text => (Some(Item::OkPair), Some(Fam::Text)),
    c08_empty_reply_comment_then_ok => (Some(Item::Comment), Some(Fam::Ok)),
    c08_empty_reply_comment_then_err => (Some(Item::Comment), Some(Fam::Err)),
    c08_empty_reply_comment_then_data => (Some(Item::Comment), Some(Fam::Data)),
    c08_empty_reply_comment_then_ok_pair => (Some(Item::Comment), Some(Fam::OkPair)),
    c08_empty_reply_comment_then_comment => (Some(Item::Comment), Some(Fam::Comment)),
    c08_empty_reply_comment_then_other => (Some(Item::Comment), Some(Fam::Other)),
    c08_empty_reply_comment_then_foreign_ok => (Some(Item::Comment), Some(Fam::ForeignOk)),
    c08_empty_reply_comment_then_text => (Some(Item::Comment), Some(Fam::Text)),
    c08_empty_reply_first_other => (Some(Item::Other), None),
    c08_empty_reply_first_foreign_ok => (Some(Item::ForeignOk), None),
    c08_empty_reply_first_text => (Some(Item::Text), None),
);

/// Summary of `Opaque::read_xml` (two lines: `read_text` to the end tag, `into()`): consumes the
/// element and returns a fixed value.  Building an `Arc<str>` from a text of symbolic length is
/// what makes the real function expensive; the real one runs in `c08_opaque_reader`.
pub fn stub_opaque_read_xml(reader: &mut NsReader<&[u8]>, start: &BytesStart<'_>) -> Result<crate::message::rpc::operation::Opaque, ReadError> {
    // precondition on the reader's own state, as in `stub_read_xml` (error.rs)
    let last = reader.model_last_cell();
    let on_data = last.kind == tape::kind::START && last.name == n::DATA && last.ns == BASE;
    assert!(on_data, "Opaque::read_xml called on an element that is not <data>");
    if !on_data {
        return Err(ReadError::NoMessageId);
    }
    let _ = reader.read_to_end(start.to_end().name())?;
    Ok(crate::message::rpc::operation::Opaque::from("x"))
}

/// The real `Opaque::read_xml` on `<data>x</data>` and on an unterminated `<data>`.
#[kani::proof]
#[kani::unwind(10)]
fn c08_opaque_reader() {
    use crate::message::rpc::operation::Opaque;
    use_reply_tables();
    let closed: bool = kani::any();
    let mut t = Tape::EMPTY;
    t.push(cells::TEXT_X);
    if closed {
        t.push(cells::DATA_END);
        t.push(cells::OK);
    }
    tape::register(0, t);
    let mut reader = reader_for(0);
    let start = BytesStart::from_id(n::DATA);
    let res = Opaque::read_xml(&mut reader, &start);
    match &res {
        Ok(o) => {
            assert!(closed && &**o == "x", "C08 Opaque: wrong content");
            match reader.read_resolved_event() {
                Ok((_, quick_xml::events::Event::Empty(_))) => {}
                _ => assert!(false, "C08 Opaque: reader did not stop after </data>"),
            }
        }
        Err(_) => assert!(!closed, "C08 Opaque: well-formed <data> rejected"),
    }
    kani::cover!(res.is_ok(), "accepted");
    kani::cover!(res.is_err(), "rejected");
    std::mem::forget(res);
}

/// C08, `DataReply<Opaque>` (get, get-config), split on the first item.
fn data_reply_body(first: Option<Item>, fam: Option<Fam>) {
    use_reply_tables();
    let (items, n) = items_with_first(first, fam);
    data_reply_check(&items, n, split_tape(first, &items, n));
    kani::cover!(first.is_none() || n == 2, "the longest reply of this split reaches the checks");
}

fn data_reply_check(items: &[Item; N_ITEMS], n: usize, t: Tape) {
    use crate::message::rpc::operation::Opaque;
    tape::register(0, t);
    let mut reader = reader_for(0);
    let start = BytesStart::from_id(n::RPC_REPLY);
    let res = DataReply::<Opaque>::read_xml(&mut reader, &start);
    let f = facts(items, n);
    match &res {
        Ok(DataReply::Data(_)) => {
            assert!(!f.has_error_sev_error, "C08 DataReply: a reply carrying rpc-error(error) was reported as success");
            assert!(f.has_data, "C08 DataReply: success reported without <data>");
        }
        Ok(DataReply::Errs(errs)) => {
            assert!(errs_match(errs, &f), "C08 DataReply: reported errors are not exactly the reply's rpc-errors, in order");
        }
        Err(_) => {}
    }
    std::mem::forget(res);
}

split_harnesses!(data_reply_body:
    c08_data_reply_empty => (None, None),
    c08_data_reply_first_ok => (Some(Item::Ok), None),
    c08_data_reply_err_error_then_ok => (Some(Item::ErrError), Some(Fam::Ok)),
    c08_data_reply_err_error_then_err => (Some(Item::ErrError), Some(Fam::Err)),
    c08_data_reply_err_error_then_data => (Some(Item::ErrError), Some(Fam::Data)),
    c08_data_reply_err_error_then_ok_pair => (Some(Item::ErrError), Some(Fam::OkPair)),
    c08_data_reply_err_error_then_comment => (Some(Item::ErrError), Some(Fam::Comment)),
    c08_data_reply_err_error_then_other => (Some(Item::ErrError), Some(Fam::Other)),
    c08_data_reply_err_error_then_foreign_ok => (Some(Item::ErrError), Some(Fam::ForeignOk)),
    c08_data_reply_err_error_then_text => (Some(Item::ErrError), Some(Fam::Text)),
    c08_data_reply_err_warning_then_ok => (Some(Item::ErrWarning), Some(Fam::Ok)),
    c08_data_reply_err_warning_then_err => (Some(Item::ErrWarning), Some(Fam::Err)),
    c08_data_reply_err_warning_then_data => (Some(Item::ErrWarning), Some(Fam::Data)),
    c08_data_reply_err_warning_then_ok_pair => (Some(Item::ErrWarning), Some(Fam::OkPair)),
    c08_data_reply_err_warning_then_comment => (Some(Item::ErrWarning), Some(Fam::Comment)),
    c08_data_reply_err_warning_then_other => (Some(Item::ErrWarning), Some(Fam::Other)),
    c08_data_reply_err_warning_then_foreign_ok => (Some(Item::ErrWarning), Some(Fam::ForeignOk)),
    c08_data_reply_err_warning_then_text => (Some(Item::ErrWarning), Some(Fam::Text)),
    c08_data_reply_data_then_ok => (Some(Item::Data), Some(Fam::Ok)),
    c08_data_reply_data_then_err => (Some(Item::Data), Some(Fam::Err)),
    c08_data_reply_data_then_data => (Some(Item::Data), Some(Fam::Data)),
    c08_data_reply_data_then_ok_pair => (Some(Item::Data), Some(Fam::OkPair)),
    c08_data_reply_data_then_comment => (Some(Item::Data), Some(Fam::Comment)),
    c08_data_reply_data_then_other => (Some(Item::Data), Some(Fam::Other)),
    c08_data_reply_data_then_foreign_ok => (Some(Item::Data), Some(Fam::ForeignOk)),
    c08_data_reply_data_then_text => (Some(Item::Data), Some(Fam::Text)),
    c08_data_reply_first_ok_pair => (Some(Item::OkPair), None),
    c08_data_reply_comment_then_ok => (Some(Item::Comment), Some(Fam::Ok)),
    c08_data_reply_comment_then_err => (Some(Item::Comment), Some(Fam::Err)),
    c08_data_reply_comment_then_data => (Some(Item::Comment), Some(Fam::Data)),
    c08_data_reply_comment_then_ok_pair => (Some(Item::Comment), Some(Fam::OkPair)),
    c08_data_reply_comment_then_comment => (Some(Item::Comment), Some(Fam::Comment)),
    c08_data_reply_comment_then_other => (Some(Item::Comment), Some(Fam::Other)),
    c08_data_reply_comment_then_foreign_ok => (Some(Item::Comment), Some(Fam::ForeignOk)),
    c08_data_reply_comment_then_text => (Some(Item::Comment), Some(Fam::Text)),
    c08_data_reply_first_other => (Some(Item::Other), None),
    c08_data_reply_first_foreign_ok => (Some(Item::ForeignOk), None),
    c08_data_reply_first_text => (Some(Item::Text), None),
);

/// C08, `BareReply` (open-/close-/lock-/unlock-configuration): success = empty reply.  Split on
/// the first item.
#[cfg(feature = "junos")]
fn bare_reply_body(first: Option<Item>, fam: Option<Fam>) {
    use_reply_tables();
    let (items, n) = items_with_first(first, fam);
    bare_reply_check(&items, n, split_tape(first, &items, n));
    kani::cover!(first.is_none() || n == 2, "the longest reply of this split reaches the checks");
}

#[cfg(feature = "junos")]
fn bare_reply_check(items: &[Item; N_ITEMS], n: usize, t: Tape) {
    use crate::message::rpc::operation::junos::BareReply;
    tape::register(0, t);
    let mut reader = reader_for(0);
    let start = BytesStart::from_id(n::RPC_REPLY);
    let res = BareReply::read_xml(&mut reader, &start);
    let f = facts(items, n);
    match &res {
        Ok(BareReply::Ok) => {
            assert!(f.n_rpc_errors == 0, "C08 BareReply: a reply carrying an rpc-error was reported as success");
        }
        Ok(BareReply::Errs(errs)) => {
            assert!(errs_match(errs, &f), "C08 BareReply: reported errors are not exactly the reply's rpc-errors, in order");
        }
        Err(_) => {}
    }
    std::mem::forget(res);
}

#[cfg(feature = "junos")]
split_harnesses!(bare_reply_body:
    c08_bare_reply_empty => (None, None),
    c08_bare_reply_first_ok => (Some(Item::Ok), None),
    c08_bare_reply_err_error_then_ok => (Some(Item::ErrError), Some(Fam::Ok)),
    c08_bare_reply_err_error_then_err => (Some(Item::ErrError), Some(Fam::Err)),
    c08_bare_reply_err_error_then_data => (Some(Item::ErrError), Some(Fam::Data)),
    c08_bare_reply_err_error_then_ok_pair => (Some(Item::ErrError), Some(Fam::OkPair)),
    c08_bare_reply_err_error_then_comment => (Some(Item::ErrError), Some(Fam::Comment)),
    c08_bare_reply_err_error_then_other => (Some(Item::ErrError), Some(Fam::Other)),
    c08_bare_reply_err_error_then_foreign_ok => (Some(Item::ErrError), Some(Fam::ForeignOk)),
    c08_bare_reply_err_error_then_text => (Some(Item::ErrError), Some(Fam::Text)),
    c08_bare_reply_err_warning_then_ok => (Some(Item::ErrWarning), Some(Fam::Ok)),
    c08_bare_reply_err_warning_then_err => (Some(Item::ErrWarning), Some(Fam::Err)),
    c08_bare_reply_err_warning_then_data => (Some(Item::ErrWarning), Some(Fam::Data)),
    c08_bare_reply_err_warning_then_ok_pair => (Some(Item::ErrWarning), Some(Fam::OkPair)),
    c08_bare_reply_err_warning_then_comment => (Some(Item::ErrWarning), Some(Fam::Comment)),
    c08_bare_reply_err_warning_then_other => (Some(Item::ErrWarning), Some(Fam::Other)),
    c08_bare_reply_err_warning_then_foreign_ok => (Some(Item::ErrWarning), Some(Fam::ForeignOk)),
    c08_bare_reply_err_warning_then_text => (Some(Item::ErrWarning), Some(Fam::Text)),
    c08_bare_reply_first_data => (Some(Item::Data), None),
    c08_bare_reply_first_ok_pair => (Some(Item::OkPair), None),
    c08_bare_reply_comment_then_ok => (Some(Item::Comment), Some(Fam::Ok)),
    c08_bare_reply_comment_then_err => (Some(Item::Comment), Some(Fam::Err)),
    c08_bare_reply_comment_then_data => (Some(Item::Comment), Some(Fam::Data)),
    c08_bare_reply_comment_then_ok_pair => (Some(Item::Comment), Some(Fam::OkPair)),
    c08_bare_reply_comment_then_comment => (Some(Item::Comment), Some(Fam::Comment)),
    c08_bare_reply_comment_then_other => (Some(Item::Comment), Some(Fam::Other)),
    c08_bare_reply_comment_then_foreign_ok => (Some(Item::Comment), Some(Fam::ForeignOk)),
    c08_bare_reply_comment_then_text => (Some(Item::Comment), Some(Fam::Text)),
    c08_bare_reply_first_other => (Some(Item::Other), None),
    c08_bare_reply_first_foreign_ok => (Some(Item::ForeignOk), None),
    c08_bare_reply_first_text => (Some(Item::Text), None),
);

// -------------------------------------------------------------------------------------------------
// C08, element sequences enumerated, leaf values symbolic.
//
// Measured: a tape window whose *element kind* is symbolic costs minutes of symbolic execution
// per reader iteration, a tape of concrete elements with symbolic leaf values (the severity of
// an <rpc-error>) seconds.  These harnesses therefore walk the element sequences of length <= 2
// with a concrete loop and leave the severities to the solver.

/// Element kinds of the reply grammar (see `Item`); `Err` stands for both severities.
#[derive(Clone, Copy, PartialEq, Eq)]
enum K {
    Ok,
    Err,
    Data,
    OkPair,
    Comment,
    Other,
    ForeignOk,
    Text,
}

const K_QUICK: [K; 3] = [K::Ok, K::Err, K::Data];
const K_FULL: [K; 8] = [K::Ok, K::Err, K::Data, K::OkPair, K::Comment, K::Other, K::ForeignOk, K::Text];

/// Push the element of kind `k`; `warning` is the (symbolic) severity choice of an `<rpc-error>`.
/// Returns the `Item` the oracle sees.  The number of cells pushed depends on `k` only.
fn push_kind(t: &mut Tape, k: K, warning: bool) -> Item {
    match k {
        K::Err => {
            t.push(quick_xml::tape::Cell::start(BASE, n::RPC_ERROR).with_attrs(warning as u8, 0));
            t.push(ERR_END);
            if warning {
                Item::ErrWarning
            } else {
                Item::ErrError
            }
        }
        K::Ok => {
            push_item(t, Item::Ok);
            Item::Ok
        }
        K::Data => {
            push_item(t, Item::Data);
            Item::Data
        }
        K::OkPair => {
            push_item(t, Item::OkPair);
            Item::OkPair
        }
        K::Comment => {
            push_item(t, Item::Comment);
            Item::Comment
        }
        K::Other => {
            push_item(t, Item::Other);
            Item::Other
        }
        K::ForeignOk => {
            push_item(t, Item::ForeignOk);
            Item::ForeignOk
        }
        K::Text => {
            push_item(t, Item::Text);
            Item::Text
        }
    }
}

/// Run `check` on the empty reply, on every one-element reply and on every two-element reply
/// over `kinds`, each with fresh symbolic severities.
fn for_each_sequence<const N: usize>(kinds: &[K; N], check: fn(&[Item; N_ITEMS], usize, Tape)) {
    use_reply_tables();
    let mut t0 = Tape::EMPTY;
    reply_close(&mut t0);
    check(&[Item::Ok; N_ITEMS], 0, t0);
    let mut i = 0;
    while i < N {
        let w1: bool = kani::any();
        let mut t1 = Tape::EMPTY;
        let a = push_kind(&mut t1, kinds[i], w1);
        reply_close(&mut t1);
        check(&[a, Item::Ok], 1, t1);
        let mut j = 0;
        while j < N {
            let wa: bool = kani::any();
            let wb: bool = kani::any();
            let mut t2 = Tape::EMPTY;
            let a = push_kind(&mut t2, kinds[i], wa);
            let b = push_kind(&mut t2, kinds[j], wb);
            reply_close(&mut t2);
            check(&[a, b], 2, t2);
            j += 1;
        }
        i += 1;
    }
    kani::cover!(true, "all sequences walked");
}

macro_rules! sequence_harnesses {
    ($( $name:ident => ($kinds:expr, $check:ident) ),* $(,)?) => {
        $(
            #[kani::proof]
            #[kani::unwind(10)]
            #[kani::stub(<crate::message::rpc::operation::Opaque as crate::message::ReadXml>::read_xml, stub_opaque_read_xml)]
            #[kani::stub(<crate::message::rpc::Error as crate::message::ReadXml>::read_xml, crate::message::rpc::error::verif_error::stub_read_xml)]
            #[kani::stub(crate::message::rpc::Errors::new, crate::message::rpc::error::verif_error::stub_errors_new)]
            #[kani::stub(crate::message::rpc::Errors::push, crate::message::rpc::error::verif_error::stub_errors_push)]
            fn $name() {
                for_each_sequence(&$kinds, $check)
            }
        )*
    };
}

sequence_harnesses!(
    c08_empty_reply_sequences => (K_QUICK, empty_reply_check),
    c08_empty_reply_sequences_full => (K_FULL, empty_reply_check),
    c08_data_reply_sequences => (K_QUICK, data_reply_check),
    c08_data_reply_sequences_full => (K_FULL, data_reply_check),
);

#[cfg(feature = "junos")]
sequence_harnesses!(
    c08_bare_reply_sequences => (K_QUICK, bare_reply_check),
    c08_bare_reply_sequences_full => (K_FULL, bare_reply_check),
);

#[kani::proof]
fn cal_nothing() {
    let x: u8 = kani::any();
    assert!(x as u32 + 1 > 0);
}


// ---- constructors for sibling harness modules (private fields of this module) ----------------

pub(crate) fn message_id(n: usize) -> MessageId {
    MessageId(n)
}

pub(crate) fn message_id_value(m: MessageId) -> usize {
    m.0
}

/// A parked reply as `PartialReply::recv` would have produced it for the tape in `slot`.
pub(crate) fn partial_reply(id: usize, slot: u8) -> PartialReply {
    PartialReply { message_id: MessageId(id), buf: tape::input_for(slot).into() }
}

pub(crate) fn partial_reply_id(p: &PartialReply) -> usize {
    p.message_id.0
}

// =================================================================================================
// C13: XML-equivalent serialisations (event level), reply readers.

fn empty_reply_on(t: Tape) -> Result<EmptyReply, ReadError> {
    tape::register(0, t);
    let mut reader = reader_for(0);
    let start = BytesStart::from_id(n::RPC_REPLY);
    EmptyReply::read_xml(&mut reader, &start)
}

fn outcome_code(r: &Result<EmptyReply, ReadError>) -> u8 {
    match r {
        Ok(EmptyReply::Ok) => 0,
        Ok(EmptyReply::Errs(_)) => 1,
        Err(_) => 2,
    }
}

/// C13 (comments): inserting a comment before or after an item of a reply does not change
/// what `EmptyReply` makes of it.  One harness per item kind (the position is symbolic).
fn comment_insertion_body(first: Option<Item>, _fam: Option<Fam>) {
    use_reply_tables();
    let item = first.unwrap();
    let mut t1 = Tape::EMPTY;
    push_item_stubbed(&mut t1, item);
    reply_close(&mut t1);
    // both positions, each on its own (concrete) tape: with a symbolic position the cursor
    // positions of the second run would be symbolic from the first event on
    let mut t2 = Tape::EMPTY;
    t2.push(cells::COMMENT);
    push_item_stubbed(&mut t2, item);
    reply_close(&mut t2);
    let mut t3 = Tape::EMPTY;
    push_item_stubbed(&mut t3, item);
    t3.push(cells::COMMENT);
    reply_close(&mut t3);
    let r1 = empty_reply_on(t1);
    let r2 = empty_reply_on(t2);
    let r3 = empty_reply_on(t3);
    assert!(outcome_code(&r1) == outcome_code(&r2), "C13 EmptyReply: a comment before an item changes the outcome");
    assert!(outcome_code(&r1) == outcome_code(&r3), "C13 EmptyReply: a comment after an item changes the outcome");
    kani::cover!(true, "all three readings completed");
    std::mem::forget((r1, r2, r3));
}

split_harnesses!(comment_insertion_body:
    c13_comment_insertion_ok => (Some(Item::Ok), None),
    c13_comment_insertion_err_error => (Some(Item::ErrError), None),
    c13_comment_insertion_err_warning => (Some(Item::ErrWarning), None),
    c13_comment_insertion_data => (Some(Item::Data), None),
    c13_comment_insertion_ok_pair => (Some(Item::OkPair), None),
    c13_comment_insertion_other => (Some(Item::Other), None),
    c13_comment_insertion_foreign_ok => (Some(Item::ForeignOk), None),
    c13_comment_insertion_text => (Some(Item::Text), None),
);

/// C13 (empty-element form): `<ok/>` and `<ok></ok>` carry the same information.
#[kani::proof]
#[kani::unwind(10)]
fn c13_empty_reply_ok_element_form() {
    use_reply_tables();
    let mut t1 = Tape::EMPTY;
    push_item(&mut t1, Item::Ok);
    reply_close(&mut t1);
    let mut t2 = Tape::EMPTY;
    push_item(&mut t2, Item::OkPair);
    reply_close(&mut t2);
    let r1 = empty_reply_on(t1);
    let r2 = empty_reply_on(t2);
    assert!(outcome_code(&r1) == outcome_code(&r2), "C13 EmptyReply: <ok/> and <ok></ok> are treated differently");
    kani::cover!(outcome_code(&r1) == 0, "<ok/> accepted");
    std::mem::forget((r1, r2));
}

/// C13 (XML declaration): a reply document that starts with `<?xml ...?>` parses like one
/// without it (`ServerMsg::from_xml` for `PartialReply`).
#[kani::proof]
#[kani::unwind(10)]
fn c13_partial_reply_xml_declaration() {
    use_reply_tables();
    let mut t1 = Tape::EMPTY;
    t1.attrs[0] = cells::MSGID_101;
    t1.push(cells::REPLY_START);
    t1.push(cells::OK);
    t1.push(cells::REPLY_END);
    let mut t2 = Tape::EMPTY;
    t2.attrs[0] = cells::MSGID_101;
    t2.push(quick_xml::tape::Cell::other(quick_xml::tape::kind::DECL, 0));
    t2.push(cells::REPLY_START);
    t2.push(cells::OK);
    t2.push(cells::REPLY_END);
    tape::register(0, t1);
    tape::register(1, t2);
    let r1 = PartialReply::from_xml(tape::input_for(0));
    let r2 = PartialReply::from_xml(tape::input_for(1));
    assert!(r1.is_ok() == r2.is_ok(), "C13 rpc-reply: an XML declaration changes whether the reply is accepted");
    kani::cover!(r1.is_ok(), "reply without declaration accepted");
    std::mem::forget((r1, r2));
}

// =================================================================================================
// C14: arbitrary event sequences never panic or loop.

/// C14: `Reply::<CloseSession>::from_xml` over a tape of exactly `K` *arbitrary* cells followed
/// by the end of input (any kind including tokenizer errors and unbalanced ends, any known
/// name, namespace and text, message-id texts including huge, negative, empty and non-numeric
/// ones): returns `Ok` or `Err`; no panic, no arithmetic overflow (Kani's checks), every loop
/// ends within the tape (unwinding assertions).  One harness per length, so that the tape length
/// is a constant for symex.
fn arbitrary_events_body<const K: usize>() {
    use crate::message::rpc::operation::CloseSession;
    use quick_xml::tape::{AttrCell, Cell};
    use_reply_tables();
    let mut t = Tape::EMPTY;
    let idt: u8 = kani::any();
    kani::assume(idt < 16);
    t.attrs[0] = AttrCell::new(a::MESSAGE_ID, idt);
    let mut i = 0;
    while i < K {
        let kind: u8 = kani::any();
        kani::assume(kind <= 9);
        let nsc: u8 = kani::any();
        kani::assume(nsc <= 4 || nsc == 255);
        let name: u8 = kani::any();
        kani::assume(name < 12);
        let text: u8 = kani::any();
        kani::assume(text < 16);
        let with_attr: bool = kani::any();
        t.push(Cell { kind, ns: nsc, name, text, attr0: 0, nattr: with_attr as u8, skip: 0 });
        i += 1;
    }
    tape::register(0, t);
    let r = Reply::<CloseSession>::from_xml(tape::input_for(0));
    kani::cover!(r.is_err(), "some arbitrary tape is rejected");
    std::mem::forget(r);
}

macro_rules! c14_harnesses {
    ($( $name:ident => $k:literal ),* $(,)?) => {
        $(
            #[kani::proof]
            #[kani::unwind(10)]
            #[kani::stub(<crate::message::rpc::Error as crate::message::ReadXml>::read_xml, crate::message::rpc::error::verif_error::stub_read_xml)]
            #[kani::stub(crate::message::rpc::Errors::new, crate::message::rpc::error::verif_error::stub_errors_new)]
            #[kani::stub(crate::message::rpc::Errors::push, crate::message::rpc::error::verif_error::stub_errors_push)]
            fn $name() {
                arbitrary_events_body::<$k>()
            }
        )*
    };
}

c14_harnesses!(
    c14_reply_arbitrary_events_1 => 1,
    c14_reply_arbitrary_events_2 => 2,
    c14_reply_arbitrary_events_3 => 3,
    c14_reply_arbitrary_events_4 => 4,
);

fn cal_f(x: u8) -> Result<u8, crate::Error> {
    if x > 200 {
        Err(crate::Error::DequeueMessage)
    } else {
        Ok(x)
    }
}

fn cal_g(x: u8) -> Result<u8, crate::Error> {
    let a = cal_f(x)?;
    let b = cal_f(a)?;
    let c = cal_f(b)?;
    let d = cal_f(c)?;
    let e = cal_f(d)?;
    let f = cal_f(e)?;
    let g = cal_f(f)?;
    let h = cal_f(g)?;
    Ok(h)
}

#[kani::proof]
fn cal_err_moves() {
    let x: u8 = kani::any();
    let r = cal_g(x);
    assert!(r.is_ok() == (x <= 200));
    std::mem::forget(r);
}

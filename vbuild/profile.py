#!/usr/bin/env python3
"""Symex profiler: run cbmc --verbosity 10 on a Kani goto binary and attribute wall time and
step counts to functions ("BMC at file .. function F" lines).
usage: profile.py <harness-substring> [--target DIR] [--unwind N] [--unwindset a:1,b:2] [--secs 120]"""
import argparse, collections, glob, os, re, subprocess, sys, time

ap = argparse.ArgumentParser()
ap.add_argument("harness")
ap.add_argument("--target", default="/verif/work/target")
ap.add_argument("--unwind", default="16")
ap.add_argument("--unwindset", default="memcmp.0:43")
ap.add_argument("--secs", type=int, default=120)
a = ap.parse_args()
outs = [f for f in glob.glob(a.target + "/**/*" + a.harness + ".out", recursive=True) if not f.endswith(".symtab.out")]
outs.sort(key=os.path.getmtime)
f = outs[-1]
print("binary:", f)
cmd = ["cbmc", "--no-malloc-may-fail", "--no-undefined-shift-check", "--no-signed-overflow-check", "--nan-check",
       "--no-self-loops-to-assumptions", "--no-pointer-check", "--object-bits", "16", "--unwind", a.unwind,
       "--unwindset", a.unwindset, "--verbosity", "10", "--program-only", f]
p = subprocess.Popen(cmd, stdout=subprocess.PIPE, stderr=subprocess.STDOUT, text=True, errors="replace")
t_by, n_by = collections.Counter(), collections.Counter()
last, cur = time.time(), "?"
start = last
rx = re.compile(r"^BMC at .*? function (.*?)(?: \(depth \d+\))?$")
try:
    for line in p.stdout:
        if line.startswith("BMC at"):
            now = time.time()
            t_by[cur] += now - last
            last = now
            m = rx.match(line.rstrip())
            cur = m.group(1)[:110] if m else "?"
            n_by[cur] += 1
            if now - start > a.secs:
                break
finally:
    p.kill()
print(f"total {time.time() - start:.0f}s, {sum(n_by.values())} steps")
for k, v in t_by.most_common(25):
    print(f"{v:8.1f}s {n_by[k]:8d}  {k}")

//! `tokio::time` model over the virtual clock in [`crate::model`].
//!
//! `Interval` follows tokio 1.37 with the default `MissedTickBehavior::Burst`: the first tick
//! is due at creation time; when a tick fires at deadline `d` the next deadline is
//! `d + period`; `reset()` = now + period, `reset_after(x)` = now + x,
//! `reset_immediately()` = now.
use std::future::Future;
use std::pin::Pin;
use std::task::{Context, Poll};

pub use std::time::Duration;

use crate::model;

#[derive(Debug, Clone, Copy, PartialEq, Eq, PartialOrd, Ord)]
pub struct Instant(u128);

impl Instant {
    pub fn now() -> Self {
        Self(model::now_ns())
    }
    /// Model hook
    pub fn as_nanos(&self) -> u128 {
        self.0
    }
}

#[derive(Debug)]
pub struct Interval {
    period_ns: u128,
    deadline_ns: u128,
}

pub fn interval(period: Duration) -> Interval {
    assert!(period > Duration::new(0, 0), "`period` must be non-zero.");
    let now = model::now_ns();
    model::set_timer_deadline(Some(now));
    Interval { period_ns: period.as_nanos(), deadline_ns: now }
}

pub struct Tick<'a> {
    i: &'a mut Interval,
}

impl Future for Tick<'_> {
    type Output = Instant;
    fn poll(mut self: Pin<&mut Self>, _cx: &mut Context<'_>) -> Poll<Instant> {
        let now = model::now_ns();
        if now >= self.i.deadline_ns {
            let fired = self.i.deadline_ns;
            self.i.deadline_ns = fired + self.i.period_ns;
            model::set_timer_deadline(Some(self.i.deadline_ns));
            Poll::Ready(Instant(fired))
        } else {
            Poll::Pending
        }
    }
}

impl Interval {
    pub fn tick(&mut self) -> Tick<'_> {
        Tick { i: self }
    }
    pub fn reset(&mut self) {
        self.deadline_ns = model::now_ns() + self.period_ns;
        model::set_timer_deadline(Some(self.deadline_ns));
    }
    pub fn reset_immediately(&mut self) {
        self.deadline_ns = model::now_ns();
        model::set_timer_deadline(Some(self.deadline_ns));
    }
    pub fn reset_after(&mut self, after: Duration) {
        self.deadline_ns = model::now_ns() + after.as_nanos();
        model::set_timer_deadline(Some(self.deadline_ns));
    }
    pub fn period(&self) -> Duration {
        Duration::from_nanos(self.period_ns as u64)
    }
}

pub async fn sleep(d: Duration) {
    let until = model::now_ns() + d.as_nanos();
    std::future::poll_fn(|_| if model::now_ns() >= until { Poll::Ready(()) } else { Poll::Pending }).await
}

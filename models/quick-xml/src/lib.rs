//! Event-level verification model of `quick-xml` 0.31.
//!
//! * Reader: `NsReader<&[u8]>` does not tokenise bytes.  It replays an event *tape* that a
//!   verification harness registered under a one-byte id; the reader input is that id.
//!   The tape is what the real tokenizer would have produced for a document: a well-nested
//!   sequence of Start/End/Empty/Text/Comment/… cells with resolved namespaces, possibly cut
//!   short (truncated document → `Eof`) and possibly containing `Err` cells (any tokenizer
//!   failure).  [`tape::render`] turns a tape back into XML text; the native differential test
//!   and the replay drivers feed that text to the real crate.
//! * Writer: same builder API as the real crate.  Every call is appended to a structured log
//!   the harness can inspect; emission of the textual bytes into `W` can be switched off to
//!   keep symbolic execution cheap.
//!
//! Everything here is part of the trusted base of every check that uses it.
pub mod errors;
pub mod events;
pub mod name;
pub mod reader;
pub mod tape;
pub mod writer;

pub use errors::{Error, Result};
pub use reader::NsReader;
pub use writer::{ElementWriter, Writer};

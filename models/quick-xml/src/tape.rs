//! Event tapes: the reader model's input, the native renderer, and the global registries.
//!
//! Names and texts are *interned*: a cell stores one-byte indices into a name table and a
//! text table that the harness registers ([`set_tables`]).  The bytes the code under test
//! sees are the `&'static` strings of those tables, so under the solver a symbolic name is an
//! if-then-else over a handful of constant strings — not an array of symbolic bytes.
//! (Measured: inline byte arrays in events cost ~15 000 symex steps per event read.)
use std::fmt::Write as _;

pub const MAX_CELLS: usize = 26;
pub const MAX_ATTRS: usize = 4;
/// Attributes one element can carry.
pub const ELEM_ATTRS: usize = 4;

/// Fixed-capacity inline byte string (used by the writer log).  Unused tail bytes are zero.
#[derive(Clone, Copy, PartialEq, Eq, Hash)]
pub struct Inline<const N: usize> {
    pub len: u8,
    pub b: [u8; N],
}

impl<const N: usize> Inline<N> {
    pub const EMPTY: Self = Self { len: 0, b: [0; N] };

    pub const fn lit(s: &[u8]) -> Self {
        let mut b = [0u8; N];
        let mut i = 0;
        while i < s.len() && i < N {
            b[i] = s[i];
            i += 1;
        }
        Self { len: i as u8, b }
    }

    pub fn from_slice(s: &[u8]) -> Self {
        let mut b = [0u8; N];
        let mut i = 0;
        while i < s.len() && i < N {
            b[i] = s[i];
            i += 1;
        }
        Self { len: i as u8, b }
    }

    #[inline]
    pub fn len(&self) -> usize {
        let l = self.len as usize;
        if l > N {
            N
        } else {
            l
        }
    }

    #[inline]
    pub fn as_slice(&self) -> &[u8] {
        &self.b[..self.len()]
    }
}

impl<const N: usize> std::fmt::Debug for Inline<N> {
    fn fmt(&self, f: &mut std::fmt::Formatter<'_>) -> std::fmt::Result {
        write!(f, "{:?}", String::from_utf8_lossy(self.as_slice()))
    }
}

pub mod kind {
    pub const START: u8 = 0;
    pub const END: u8 = 1;
    pub const EMPTY: u8 = 2;
    pub const TEXT: u8 = 3;
    pub const COMMENT: u8 = 4;
    pub const CDATA: u8 = 5;
    pub const DECL: u8 = 6;
    pub const PI: u8 = 7;
    pub const DOCTYPE: u8 = 8;
    /// tokenizer error at this position
    pub const ERR: u8 = 9;
    /// expands to the registered macro `cell.name` (a fixed cell sequence, e.g. a whole
    /// `<rpc-error>` element) — keeps tapes short while the code under test still reads every
    /// event of the expansion
    pub const MACRO: u8 = 10;
    /// nothing: the reader passes over this cell (and the `skip` cells after it) without an
    /// event — lets a harness lay items out in fixed-width windows, so that cursor positions
    /// stay constants for symex whatever the (symbolic) content of a window is
    pub const NOP: u8 = 11;
}

/// Namespace codes.  `0` = no namespace in scope (`Unbound`), `255` = undeclared prefix
/// (`Unknown`).
pub mod ns {
    pub const UNBOUND: u8 = 0;
    pub const BASE: u8 = 1;
    pub const XNM: u8 = 2;
    pub const JCMD: u8 = 3;
    pub const OTHER: u8 = 4;
    pub const JUNOS: u8 = 5;
    pub const UNKNOWN: u8 = 255;
    pub const COUNT: usize = 6;
}

pub static NS_URIS: [&[u8]; ns::COUNT] = [
    b"",
    b"urn:ietf:params:xml:ns:netconf:base:1.0",
    b"http://xml.juniper.net/xnm/1.1/xnm",
    b"http://yang.juniper.net/junos/jcmd",
    b"urn:example:other",
    b"http://xml.juniper.net/junos/23.1R0/junos",
];

pub const NS_CAP: usize = 42;

/// The namespace URIs as inline strings.  The reader copies the one that applies into a buffer
/// it owns and hands out a slice of *that* (concrete address, 6-way symbolic content): comparing
/// a namespace costs 40 plain byte reads instead of 40 dereferences of a pointer that may point
/// into any of the tables.
pub(crate) static NS_TABLE: [Inline<NS_CAP>; ns::COUNT] = [
    Inline::lit(b""),
    Inline::lit(b"urn:ietf:params:xml:ns:netconf:base:1.0"),
    Inline::lit(b"http://xml.juniper.net/xnm/1.1/xnm"),
    Inline::lit(b"http://yang.juniper.net/junos/jcmd"),
    Inline::lit(b"urn:example:other"),
    Inline::lit(b"http://xml.juniper.net/junos/23.1R0/junos"),
];

/// Prefixes the renderer declares on the root element and the attribute resolver knows.
pub static PREFIXES: [(&[u8], u8); 5] = [
    (b"nc", ns::BASE),
    (b"xnm", ns::XNM),
    (b"jcmd", ns::JCMD),
    (b"o", ns::OTHER),
    (b"junos", ns::JUNOS),
];

/// A text-table entry: the raw source text (what `read_text` returns) and its trimmed form
/// (what a `Text` event shows under `trim_text(true)`).
#[derive(Clone, Copy, Debug)]
pub struct TextEntry {
    pub raw: &'static str,
    pub trimmed: &'static str,
}

impl TextEntry {
    pub const fn plain(s: &'static str) -> Self {
        Self { raw: s, trimmed: s }
    }
    pub const fn padded(raw: &'static str, trimmed: &'static str) -> Self {
        Self { raw, trimmed }
    }
}

#[derive(Clone, Copy, Debug)]
pub struct AttrName {
    /// qualified name as written (`message-id`, `jcmd:active`, `xmlns:jcmd`)
    pub qname: &'static [u8],
    /// local part
    pub local: &'static [u8],
    /// resolved namespace code of the attribute (`ns::UNBOUND` for unprefixed ones,
    /// `ns::UNKNOWN` for undeclared prefixes such as `xmlns`)
    pub ns: u8,
}

static EMPTY_NAMES: [&[u8]; 1] = [b""];
static EMPTY_TEXTS: [TextEntry; 1] = [TextEntry::plain("")];
static EMPTY_ATTRS: [AttrName; 1] = [AttrName { qname: b"", local: b"", ns: 0 }];

static mut NAMES: &'static [&'static [u8]] = &EMPTY_NAMES;
static mut TEXTS: &'static [TextEntry] = &EMPTY_TEXTS;
static mut ATTR_NAMES: &'static [AttrName] = &EMPTY_ATTRS;

/// Register the element-name, text and attribute-name tables the tapes of this harness index
/// into.  Entries must be pairwise distinct (checked natively).
pub fn set_tables(names: &'static [&'static [u8]], texts: &'static [TextEntry], attr_names: &'static [AttrName]) {
    #[cfg(not(kani))]
    {
        for (i, a) in names.iter().enumerate() {
            for b in &names[..i] {
                assert!(a != b, "duplicate name in table");
            }
        }
        for t in texts {
            assert_eq!(t.raw.trim(), t.trimmed, "text table entry not consistent");
        }
    }
    unsafe {
        NAMES = names;
        TEXTS = texts;
        ATTR_NAMES = attr_names;
    }
}

static NO_LOCAL_OFFS: [u8; 1] = [0];
/// Offset of the local part inside each element name of `NAMES` (3 for `nc:ok`); a one-entry
/// table of zeros (the default) means that no name carries a prefix.
static mut LOCAL_OFFS: &'static [u8] = &NO_LOCAL_OFFS;

/// Register the local-part offsets that go with the element-name table (prefixed spellings).
pub fn set_local_offsets(offs: &'static [u8]) {
    unsafe {
        LOCAL_OFFS = offs;
    }
}

#[inline]
pub fn local_off(id: u8) -> usize {
    unsafe {
        let t = LOCAL_OFFS;
        t[id as usize % t.len()] as usize
    }
}

#[inline]
pub fn name_bytes(id: u8) -> &'static [u8] {
    unsafe {
        let t = NAMES;
        t[id as usize % t.len()]
    }
}

#[inline]
pub fn text_entry(id: u8) -> TextEntry {
    unsafe {
        let t = TEXTS;
        t[id as usize % t.len()]
    }
}

#[inline]
pub fn attr_name(id: u8) -> AttrName {
    unsafe {
        let t = ATTR_NAMES;
        t[id as usize % t.len()]
    }
}

/// Index of the table entry `p` points at, if any (pointer identity).
pub(crate) fn name_id_of(p: &[u8]) -> Option<u8> {
    unsafe {
        let t = NAMES;
        let mut i = 0;
        while i < t.len() {
            if std::ptr::eq(t[i].as_ptr(), p.as_ptr()) && t[i].len() == p.len() {
                return Some(i as u8);
            }
            i += 1;
        }
        None
    }
}

#[derive(Clone, Copy, PartialEq, Eq, Debug)]
pub struct AttrCell {
    /// index into the attribute-name table
    pub key: u8,
    /// index into the text table (logical, unescaped value = `raw`)
    pub val: u8,
}

impl AttrCell {
    pub const EMPTY: Self = Self { key: 0, val: 0 };
    pub const fn new(key: u8, val: u8) -> Self {
        Self { key, val }
    }
}

#[derive(Clone, Copy, PartialEq, Eq, Debug)]
pub struct Cell {
    pub kind: u8,
    /// resolved namespace of the element name (Start/End/Empty)
    pub ns: u8,
    /// Start/End/Empty: index into the name table.  The model has no prefixed element names:
    /// which prefix a document uses is resolved inside quick-xml, so `name()` and
    /// `local_name()` coincide and `ns` carries the resolution result.
    /// Macro: macro index.
    pub name: u8,
    /// Text/Comment/CData/…: index into the text table
    pub text: u8,
    /// attributes of a Start/Empty cell: `attrs[attr0 .. attr0 + nattr]` of the tape
    pub attr0: u8,
    pub nattr: u8,
    /// number of (unused) tape positions to pass over after this cell
    pub skip: u8,
}

impl Cell {
    pub const NONE: Self = Self { kind: kind::ERR, ns: 0, name: 0, text: 0, attr0: 0, nattr: 0, skip: 0 };
    /// a window of `width` positions holding nothing
    pub const fn nop(width: u8) -> Self {
        Self { kind: kind::NOP, skip: width - 1, ..Self::NONE }
    }
    pub const fn with_skip(mut self, skip: u8) -> Self {
        self.skip = skip;
        self
    }
    pub const fn elem(kind: u8, ns: u8, name: u8) -> Self {
        Self { kind, ns, name, ..Self::NONE }
    }
    pub const fn start(ns: u8, name: u8) -> Self {
        Self::elem(kind::START, ns, name)
    }
    pub const fn end(ns: u8, name: u8) -> Self {
        Self::elem(kind::END, ns, name)
    }
    pub const fn empty(ns: u8, name: u8) -> Self {
        Self::elem(kind::EMPTY, ns, name)
    }
    pub const fn text(t: u8) -> Self {
        Self { kind: kind::TEXT, text: t, ..Self::NONE }
    }
    pub const fn comment(t: u8) -> Self {
        Self { kind: kind::COMMENT, text: t, ..Self::NONE }
    }
    pub const fn other(kind: u8, t: u8) -> Self {
        Self { kind, text: t, ..Self::NONE }
    }
    pub const fn err() -> Self {
        Self::NONE
    }
    pub const fn mac(index: u8) -> Self {
        Self { kind: kind::MACRO, name: index, ..Self::NONE }
    }
    pub const fn with_attrs(mut self, attr0: u8, nattr: u8) -> Self {
        self.attr0 = attr0;
        self.nattr = nattr;
        self
    }
}

#[derive(Clone, Copy, PartialEq, Eq, Debug)]
pub struct Tape {
    pub len: u8,
    pub cells: [Cell; MAX_CELLS],
    pub attrs: [AttrCell; MAX_ATTRS],
}

impl Tape {
    pub const EMPTY: Self = Self { len: 0, cells: [Cell::NONE; MAX_CELLS], attrs: [AttrCell::EMPTY; MAX_ATTRS] };

    pub fn push(&mut self, c: Cell) {
        if (self.len as usize) < MAX_CELLS {
            self.cells[self.len as usize] = c;
            self.len += 1;
        }
    }

    pub fn from_cells(cells: &[Cell]) -> Self {
        let mut t = Self::EMPTY;
        for c in cells {
            t.push(*c);
        }
        t
    }
}

pub const SLOTS: usize = 6;
static mut TAPES: [Tape; SLOTS] = [Tape::EMPTY; SLOTS];

/// Register `tape` under `slot`; a reader created from the one-byte input `[slot]` replays it.
pub fn register(slot: u8, tape: Tape) {
    unsafe {
        TAPES[slot as usize % SLOTS] = tape;
    }
}

pub fn registered(slot: u8) -> Tape {
    unsafe { TAPES[slot as usize % SLOTS] }
}

pub const MACRO_LEN: usize = 12;
pub const MACROS: usize = 3;

#[derive(Clone, Copy)]
pub struct Macro {
    pub len: u8,
    pub cells: [Cell; MACRO_LEN],
}

impl Macro {
    pub const EMPTY: Self = Self { len: 0, cells: [Cell::NONE; MACRO_LEN] };
    pub const fn from_cells(cells: &[Cell]) -> Self {
        let mut m = Self::EMPTY;
        let mut i = 0;
        while i < cells.len() && i < MACRO_LEN {
            m.cells[i] = cells[i];
            i += 1;
        }
        m.len = i as u8;
        m
    }
}

static mut MACRO_TABLE: [Macro; MACROS] = [Macro::EMPTY; MACROS];

pub fn register_macro(index: u8, m: Macro) {
    unsafe {
        MACRO_TABLE[index as usize % MACROS] = m;
    }
}

pub fn macro_at(index: u8) -> Macro {
    unsafe { MACRO_TABLE[index as usize % MACROS] }
}

/// Cursor over a tape with macro expansion: `(pos, sub)`.
#[derive(Clone, Copy, PartialEq, Eq, Debug, Default)]
pub struct Cursor {
    pub pos: usize,
    pub sub: usize,
}

/// The cell under the cursor and the cursor after it (loop-free).
pub fn fetch(slot: u8, cur: Cursor) -> Option<(Cell, Cursor)> {
    unsafe {
        let t = &*std::ptr::addr_of!(TAPES[slot as usize % SLOTS]);
        if cur.pos >= t.len as usize || cur.pos >= MAX_CELLS {
            return None;
        }
        let mut pos = cur.pos;
        let mut c = t.cells[pos];
        // up to MAX_HOPS consecutive NOP windows (unrolled, loop-free); more are a
        // tape-construction error and read as a tokenizer error
        macro_rules! hop {
            () => {
                if c.kind == kind::NOP {
                    pos = pos + 1 + c.skip as usize;
                    if pos >= t.len as usize || pos >= MAX_CELLS {
                        return None;
                    }
                    c = t.cells[pos];
                }
            };
        }
        hop!();
        hop!();
        hop!();
        if c.kind == kind::NOP {
            return Some((Cell::NONE, Cursor { pos: pos + 1, sub: 0 }));
        }
        let cur = Cursor { pos, sub: cur.sub };
        if c.kind != kind::MACRO {
            return Some((c, Cursor { pos: pos + 1 + c.skip as usize, sub: 0 }));
        }
        let m = &*std::ptr::addr_of!(MACRO_TABLE[c.name as usize % MACROS]);
        let n = m.len as usize;
        if cur.sub >= n || cur.sub >= MACRO_LEN {
            // empty macro: behaves like a tokenizer error cell
            return Some((Cell::NONE, Cursor { pos: cur.pos + 1 + c.skip as usize, sub: 0 }));
        }
        let sc = m.cells[cur.sub];
        let next = if cur.sub + 1 >= n { Cursor { pos: cur.pos + 1 + c.skip as usize, sub: 0 } } else { Cursor { pos: cur.pos, sub: cur.sub + 1 } };
        Some((sc, next))
    }
}

pub(crate) fn attr_at(slot: u8, i: usize) -> AttrCell {
    unsafe {
        let t = &*std::ptr::addr_of!(TAPES[slot as usize % SLOTS]);
        t.attrs[i % MAX_ATTRS]
    }
}

/// All cells of a tape with macros expanded (native side).
pub fn expand(tape: &Tape) -> Vec<Cell> {
    let mut out = Vec::new();
    let mut i = 0;
    while i < (tape.len as usize).min(MAX_CELLS) {
        let c = tape.cells[i];
        i += 1 + c.skip as usize;
        if c.kind == kind::NOP {
            continue;
        }
        if c.kind == kind::MACRO {
            let m = macro_at(c.name);
            if m.len == 0 {
                out.push(Cell::NONE);
            }
            for k in 0..(m.len as usize).min(MACRO_LEN) {
                out.push(m.cells[k]);
            }
        } else {
            out.push(c);
        }
    }
    out
}

/// The input string that selects `slot`: the slot is coded in the *length* of the input
/// (`slot + 1` bytes).  The length is a plain integer in the fat pointer, so it stays a constant
/// for CBMC's constant propagation even when the code under test copies the input (String,
/// Arc<str>, Bytes); a slot read from the first *byte* of the input went through memory and
/// made every cell of the tape look symbolic to symex (all match arms explored for concrete
/// tapes).
pub const fn input_for(slot: u8) -> &'static str {
    match slot {
        0 => "\u{0}",
        1 => "\u{1}\u{1}",
        2 => "\u{2}\u{2}\u{2}",
        3 => "\u{3}\u{3}\u{3}\u{3}",
        4 => "\u{4}\u{4}\u{4}\u{4}\u{4}",
        _ => "\u{5}\u{5}\u{5}\u{5}\u{5}\u{5}",
    }
}

/// Inverse of [`input_for`].
pub const fn slot_of_input(input: &[u8]) -> Option<u8> {
    if input.is_empty() || input.len() > SLOTS {
        None
    } else {
        Some((input.len() - 1) as u8)
    }
}

// ---------------------------------------------------------------------------------------------
// rendering (native side: differential tests, replay, read_text slow path)

fn esc(out: &mut String, s: &[u8], attr: bool) {
    for &c in s {
        match c {
            b'<' => out.push_str("&lt;"),
            b'>' => out.push_str("&gt;"),
            b'&' => out.push_str("&amp;"),
            b'"' if attr => out.push_str("&quot;"),
            c => out.push(c as char),
        }
    }
}

fn raw(out: &mut String, s: &[u8]) {
    for &c in s {
        out.push(c as char);
    }
}

/// Render `cells`.  With `root_decls`, the first Start/Empty cell gets the `xmlns:p`
/// declarations of [`PREFIXES`]; an element whose namespace differs from the default
/// namespace in force gets an `xmlns="…"` re-declaration, so that every name resolves as the
/// tape says.
pub fn render_cells(cells: &[Cell], attrs: &[AttrCell; MAX_ATTRS], root_decls: bool, dflt0: u8) -> String {
    let mut out = String::new();
    let mut first = root_decls;
    let mut dflt: Vec<u8> = vec![dflt0];
    for c in cells {
        match c.kind {
            kind::START | kind::EMPTY => {
                out.push('<');
                raw(&mut out, name_bytes(c.name));
                let cur = *dflt.last().unwrap();
                let mut my = cur;
                if c.ns != cur && c.ns != ns::UNKNOWN {
                    let _ = write!(out, " xmlns=\"{}\"", String::from_utf8_lossy(NS_URIS[c.ns as usize % ns::COUNT]));
                    my = c.ns;
                }
                if first {
                    for (p, n) in PREFIXES.iter() {
                        let _ = write!(
                            out,
                            " xmlns:{}=\"{}\"",
                            String::from_utf8_lossy(p),
                            String::from_utf8_lossy(NS_URIS[*n as usize])
                        );
                    }
                    first = false;
                }
                let mut k = 0;
                while k < c.nattr as usize {
                    let a = &attrs[(c.attr0 as usize + k) % MAX_ATTRS];
                    out.push(' ');
                    raw(&mut out, attr_name(a.key).qname);
                    out.push_str("=\"");
                    esc(&mut out, text_entry(a.val).raw.as_bytes(), true);
                    out.push('"');
                    k += 1;
                }
                if c.kind == kind::EMPTY {
                    out.push_str("/>");
                } else {
                    out.push('>');
                    dflt.push(my);
                }
            }
            kind::END => {
                out.push_str("</");
                raw(&mut out, name_bytes(c.name));
                out.push('>');
                if dflt.len() > 1 {
                    let _ = dflt.pop();
                }
            }
            kind::TEXT => raw(&mut out, text_entry(c.text).raw.as_bytes()),
            kind::COMMENT => {
                out.push_str("<!--");
                raw(&mut out, text_entry(c.text).raw.as_bytes());
                out.push_str("-->");
            }
            kind::CDATA => {
                out.push_str("<![CDATA[");
                raw(&mut out, text_entry(c.text).raw.as_bytes());
                out.push_str("]]>");
            }
            kind::DECL => out.push_str("<?xml version=\"1.0\" encoding=\"UTF-8\"?>"),
            kind::PI => {
                out.push_str("<?");
                raw(&mut out, text_entry(c.text).raw.as_bytes());
                out.push_str("?>");
            }
            kind::DOCTYPE => {
                out.push_str("<!DOCTYPE ");
                raw(&mut out, text_entry(c.text).raw.as_bytes());
                out.push('>');
            }
            _ => out.push_str("<!>"),
        }
    }
    out
}

pub fn render(tape: &Tape) -> String {
    render_cells(&expand(tape), &tape.attrs, true, ns::UNBOUND)
}

//! `tokio::process` model: the child's stdout/stdin are the scripted connection.
use std::ffi::OsStr;
use std::io;
use std::process::Stdio;
use std::task::Poll;

use crate::io::{scripted_read, scripted_write, AsyncRead, AsyncWrite};

static mut SPAWN_FAILS: bool = false;

pub fn set_spawn_fails(on: bool) {
    unsafe { SPAWN_FAILS = on }
}

#[derive(Debug)]
pub struct Command(());

impl Command {
    pub fn new<S: AsRef<OsStr>>(_program: S) -> Command {
        Command(())
    }
    pub fn stdin<T: Into<Stdio>>(&mut self, _cfg: T) -> &mut Command {
        self
    }
    pub fn stdout<T: Into<Stdio>>(&mut self, _cfg: T) -> &mut Command {
        self
    }
    pub fn stderr<T: Into<Stdio>>(&mut self, _cfg: T) -> &mut Command {
        self
    }
    pub fn arg<S: AsRef<OsStr>>(&mut self, _arg: S) -> &mut Command {
        self
    }
    pub fn args<I, S>(&mut self, _args: I) -> &mut Command
    where
        I: IntoIterator<Item = S>,
        S: AsRef<OsStr>,
    {
        self
    }
    pub fn kill_on_drop(&mut self, _kill_on_drop: bool) -> &mut Command {
        self
    }
    pub fn spawn(&mut self) -> io::Result<Child> {
        if unsafe { SPAWN_FAILS } {
            Err(io::Error::from(io::ErrorKind::NotFound))
        } else {
            Ok(Child { stdin: Some(ChildStdin(())), stdout: Some(ChildStdout(())), stderr: Some(ChildStderr(())) })
        }
    }
}

#[derive(Debug)]
pub struct Child {
    pub stdin: Option<ChildStdin>,
    pub stdout: Option<ChildStdout>,
    pub stderr: Option<ChildStderr>,
}

#[derive(Debug)]
pub struct ChildStdin(());
#[derive(Debug)]
pub struct ChildStdout(());

impl Child {
    /// Model constructor (harnesses): a running child with piped stdio.
    pub fn model() -> Self {
        Child { stdin: Some(ChildStdin(())), stdout: Some(ChildStdout(())), stderr: Some(ChildStderr(())) }
    }
}
#[derive(Debug)]
pub struct ChildStderr(());

impl AsyncRead for ChildStdout {
    fn poll_read_model(&mut self, out: &mut dyn FnMut(&[u8])) -> Poll<io::Result<usize>> {
        scripted_read(out)
    }
}

impl AsyncWrite for ChildStdin {
    fn poll_write_model(&mut self, data: &[u8]) -> Poll<io::Result<usize>> {
        scripted_write(data)
    }
}

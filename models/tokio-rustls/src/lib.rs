//! Verification model of `tokio-rustls` 0.25 / `rustls` 0.22: type shells.  A `TlsStream` is
//! the scripted connection of the tokio model; handshake, record layer and certificate
//! handling are not modelled (third-party, outside every claim).
use std::io;
use std::sync::Arc;
use std::task::Poll;

use rustls_pki_types::{CertificateDer, PrivateKeyDer, ServerName};
use tokio::io::{AsyncRead, AsyncWrite};

pub mod rustls {
    use super::*;
    use std::fmt;

    /// Field-less (see quick-xml model errors.rs for why).
    #[derive(Debug, Clone, Copy, PartialEq, Eq)]
    pub enum Error {
        General,
        NoCertificatesPresented,
    }
    impl fmt::Display for Error {
        fn fmt(&self, f: &mut fmt::Formatter<'_>) -> fmt::Result {
            f.write_str("rustls error (model)")
        }
    }
    impl std::error::Error for Error {}

    #[derive(Debug, Clone, Default)]
    pub struct RootCertStore {
        pub roots: usize,
    }
    impl RootCertStore {
        pub fn empty() -> Self {
            Self { roots: 0 }
        }
        pub fn add(&mut self, _der: CertificateDer<'_>) -> Result<(), Error> {
            self.roots += 1;
            Ok(())
        }
    }

    /// Opaque.  The real `Debug` impl is rustls code and outside the C20 claim; the model
    /// prints nothing of the key.
    #[derive(Clone)]
    pub struct ClientConfig {
        _roots: usize,
    }
    impl fmt::Debug for ClientConfig {
        fn fmt(&self, f: &mut fmt::Formatter<'_>) -> fmt::Result {
            f.write_str("ClientConfig { .. }")
        }
    }
    pub struct ConfigBuilder<S>(S);
    pub struct WantsVerifier;
    pub struct WantsClientCert(usize);
    impl ClientConfig {
        pub fn builder() -> ConfigBuilder<WantsVerifier> {
            ConfigBuilder(WantsVerifier)
        }
    }
    impl ConfigBuilder<WantsVerifier> {
        pub fn with_root_certificates(self, roots: impl Into<Arc<RootCertStore>>) -> ConfigBuilder<WantsClientCert> {
            ConfigBuilder(WantsClientCert(roots.into().roots))
        }
    }
    impl ConfigBuilder<WantsClientCert> {
        pub fn with_client_auth_cert(
            self,
            _cert_chain: Vec<CertificateDer<'static>>,
            _key_der: PrivateKeyDer<'static>,
        ) -> Result<ClientConfig, Error> {
            Ok(ClientConfig { _roots: (self.0).0 })
        }
        pub fn with_no_client_auth(self) -> ClientConfig {
            ClientConfig { _roots: (self.0).0 }
        }
    }
}

pub mod client {
    use super::*;

    #[derive(Debug)]
    pub struct TlsStream<IO> {
        pub(crate) _io: IO,
    }

    impl<IO> TlsStream<IO> {
        /// Model constructor (harnesses): an established stream over `io`.
        pub fn model(io: IO) -> Self {
            Self { _io: io }
        }
    }

    impl<IO> AsyncRead for TlsStream<IO> {
        fn poll_read_model(&mut self, out: &mut dyn FnMut(&[u8])) -> Poll<io::Result<usize>> {
            tokio::model::tls_read(out)
        }
    }
    impl<IO> AsyncWrite for TlsStream<IO> {
        fn poll_write_model(&mut self, data: &[u8]) -> Poll<io::Result<usize>> {
            tokio::model::tls_write(data)
        }
    }
}

#[derive(Clone)]
pub struct TlsConnector {
    _cfg: Arc<rustls::ClientConfig>,
}

impl From<Arc<rustls::ClientConfig>> for TlsConnector {
    fn from(cfg: Arc<rustls::ClientConfig>) -> Self {
        Self { _cfg: cfg }
    }
}

static mut HANDSHAKE_FAILS: bool = false;
pub fn set_handshake_fails(on: bool) {
    unsafe { HANDSHAKE_FAILS = on }
}

impl TlsConnector {
    pub async fn connect<IO>(&self, _domain: ServerName<'static>, stream: IO) -> io::Result<client::TlsStream<IO>>
    where
        IO: AsyncRead + AsyncWrite + Unpin,
    {
        if unsafe { HANDSHAKE_FAILS } {
            Err(io::Error::from(io::ErrorKind::InvalidData))
        } else {
            Ok(client::TlsStream { _io: stream })
        }
    }
}

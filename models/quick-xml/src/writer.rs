//! Model of `quick_xml::Writer` / `ElementWriter`.
//!
//! Same builder API.  Every operation is appended to a global structured log
//! ([`log`]) that harnesses inspect; the textual bytes are written into `W` only while
//! [`set_emit_bytes`]`(true)` (default: on natively, off under Kani).
use std::io::Write;
use std::result::Result as StdResult;

use crate::errors::{Error, Result};
use crate::events::attributes::{Attribute, ESCAPE_MARK};
use crate::events::{BytesCData, BytesText, Event};
use crate::tape::Inline;

pub const WNAME_CAP: usize = 28;
pub const WTEXT_CAP: usize = 40;
pub const WLOG_CAP: usize = 48;

#[derive(Clone, Copy, PartialEq, Eq, Debug)]
pub enum WKind {
    /// `<name` … `>`
    Start,
    /// `</name>`
    End,
    /// `<name` … `/>`
    Empty,
    /// attribute of the Start/Empty entry that precedes it; `escaped` = went through the
    /// escaping constructor
    Attr,
    /// text content; `escaped` = went through `BytesText::new`
    Text,
    /// `get_mut()` handed out: caller may write raw bytes
    RawAccess,
}

#[derive(Clone, Copy, PartialEq, Eq, Debug)]
pub struct WEntry {
    pub kind: WKind,
    pub name: Inline<WNAME_CAP>,
    pub text: Inline<WTEXT_CAP>,
    /// true length of the text (may exceed the inline capacity)
    pub text_len: usize,
    pub escaped: bool,
    pub depth: u8,
}

impl WEntry {
    pub const NONE: Self =
        Self { kind: WKind::RawAccess, name: Inline::EMPTY, text: Inline::EMPTY, text_len: 0, escaped: false, depth: 0 };
}

pub struct WLog {
    pub n: usize,
    pub overflow: bool,
    pub entries: [WEntry; WLOG_CAP],
    pub depth: u8,
}

static mut WLOG: WLog = WLog { n: 0, overflow: false, entries: [WEntry::NONE; WLOG_CAP], depth: 0 };
static mut EMIT: bool = !cfg!(kani);

/// The writer log (all writers share it; harnesses are single-threaded).
pub fn log() -> &'static WLog {
    unsafe { &*std::ptr::addr_of!(WLOG) }
}

pub fn reset_log() {
    unsafe {
        WLOG.n = 0;
        WLOG.overflow = false;
        WLOG.depth = 0;
    }
}

pub fn set_emit_bytes(on: bool) {
    unsafe { EMIT = on }
}

fn emit() -> bool {
    unsafe { EMIT }
}

fn push(kind: WKind, name: &[u8], text: &[u8], escaped: bool) {
    unsafe {
        let l = &mut *std::ptr::addr_of_mut!(WLOG);
        if kind == WKind::End && l.depth > 0 {
            l.depth -= 1;
        }
        if l.n < WLOG_CAP {
            l.entries[l.n] = WEntry {
                kind,
                name: Inline::from_slice(name),
                text: Inline::from_slice(text),
                text_len: text.len(),
                escaped,
                depth: l.depth,
            };
            l.n += 1;
        } else {
            l.overflow = true;
        }
        if kind == WKind::Start {
            l.depth += 1;
        }
    }
}

fn write_escaped<W: Write>(w: &mut W, s: &[u8], attr: bool) -> std::io::Result<()> {
    let _ = attr;
    for &c in s {
        match c {
            b'<' => w.write_all(b"&lt;")?,
            b'>' => w.write_all(b"&gt;")?,
            b'&' => w.write_all(b"&amp;")?,
            b'\'' => w.write_all(b"&apos;")?,
            b'"' => w.write_all(b"&quot;")?,
            c => w.write_all(&[c])?,
        }
    }
    Ok(())
}

pub struct Writer<W> {
    writer: W,
}

impl<W> Writer<W> {
    pub fn new(inner: W) -> Writer<W> {
        Writer { writer: inner }
    }
    pub fn into_inner(self) -> W {
        self.writer
    }
    /// Raw access to the sink: logged, because whatever the caller writes bypasses escaping.
    pub fn get_mut(&mut self) -> &mut W {
        push(WKind::RawAccess, b"", b"", false);
        &mut self.writer
    }
    pub fn get_ref(&self) -> &W {
        &self.writer
    }
    pub fn create_element<'a, N>(&'a mut self, name: &'a N) -> ElementWriter<'a, W>
    where
        N: 'a + AsRef<str> + ?Sized,
    {
        ElementWriter { writer: self, name: name.as_ref(), attrs: Vec::new() }
    }
}

impl<W: Write> Writer<W> {
    pub fn write_event<'a, E: AsRef<Event<'a>>>(&mut self, event: E) -> Result<()> {
        match event.as_ref() {
            Event::Text(t) => self.text(t),
            Event::Start(s) => {
                push(WKind::Start, s.name().0, b"", false);
                if emit() {
                    self.writer.write_all(b"<")?;
                    self.writer.write_all(s.name().0)?;
                    self.writer.write_all(b">")?;
                }
                Ok(())
            }
            Event::End(e) => {
                push(WKind::End, e.name().0, b"", false);
                if emit() {
                    self.writer.write_all(b"</")?;
                    self.writer.write_all(e.name().0)?;
                    self.writer.write_all(b">")?;
                }
                Ok(())
            }
            Event::Empty(s) => {
                push(WKind::Empty, s.name().0, b"", false);
                if emit() {
                    self.writer.write_all(b"<")?;
                    self.writer.write_all(s.name().0)?;
                    self.writer.write_all(b"/>")?;
                }
                Ok(())
            }
            _ => Ok(()),
        }
    }

    fn text(&mut self, t: &BytesText<'_>) -> Result<()> {
        push(WKind::Text, b"", t, t.escape);
        if emit() {
            if t.escape {
                write_escaped(&mut self.writer, t, false)?;
            } else {
                self.writer.write_all(t)?;
            }
        }
        Ok(())
    }

    fn open(&mut self, name: &str, attrs: &[(Vec<u8>, Vec<u8>, bool)], empty: bool) -> Result<()> {
        push(if empty { WKind::Empty } else { WKind::Start }, name.as_bytes(), b"", false);
        for (k, v, esc) in attrs {
            push(WKind::Attr, k, v, *esc);
        }
        if emit() {
            self.writer.write_all(b"<")?;
            self.writer.write_all(name.as_bytes())?;
            for (k, v, esc) in attrs {
                self.writer.write_all(b" ")?;
                self.writer.write_all(k)?;
                self.writer.write_all(b"=\"")?;
                if *esc {
                    write_escaped(&mut self.writer, v, true)?;
                } else {
                    self.writer.write_all(v)?;
                }
                self.writer.write_all(b"\"")?;
            }
            self.writer.write_all(if empty { b"/>" } else { b">" })?;
        }
        Ok(())
    }

    fn close(&mut self, name: &str) -> Result<()> {
        push(WKind::End, name.as_bytes(), b"", false);
        if emit() {
            self.writer.write_all(b"</")?;
            self.writer.write_all(name.as_bytes())?;
            self.writer.write_all(b">")?;
        }
        Ok(())
    }
}

pub struct ElementWriter<'a, W> {
    writer: &'a mut Writer<W>,
    name: &'a str,
    attrs: Vec<(Vec<u8>, Vec<u8>, bool)>,
}

impl<'a, W> ElementWriter<'a, W> {
    pub fn with_attribute<'b, I>(mut self, attr: I) -> Self
    where
        I: Into<Attribute<'b>>,
    {
        let a: Attribute<'b> = attr.into();
        let v: &[u8] = &a.value;
        let (val, esc) = if !v.is_empty() && v[0] == ESCAPE_MARK { (v[1..].to_vec(), true) } else { (v.to_vec(), false) };
        self.attrs.push((a.key.0.to_vec(), val, esc));
        self
    }

    pub fn with_attributes<'b, I>(mut self, attributes: I) -> Self
    where
        I: IntoIterator,
        I::Item: Into<Attribute<'b>>,
    {
        for a in attributes {
            self = self.with_attribute(a);
        }
        self
    }
}

impl<'a, W: Write> ElementWriter<'a, W> {
    pub fn write_text_content(self, text: BytesText<'_>) -> Result<&'a mut Writer<W>> {
        self.writer.open(self.name, &self.attrs, false)?;
        self.writer.text(&text)?;
        self.writer.close(self.name)?;
        Ok(self.writer)
    }

    pub fn write_cdata_content(self, text: BytesCData<'_>) -> Result<&'a mut Writer<W>> {
        self.writer.open(self.name, &self.attrs, false)?;
        push(WKind::Text, b"", &text, false);
        if emit() {
            self.writer.writer.write_all(b"<![CDATA[")?;
            self.writer.writer.write_all(&text)?;
            self.writer.writer.write_all(b"]]>")?;
        }
        self.writer.close(self.name)?;
        Ok(self.writer)
    }

    pub fn write_empty(self) -> Result<&'a mut Writer<W>> {
        self.writer.open(self.name, &self.attrs, true)?;
        Ok(self.writer)
    }

    pub fn write_inner_content<F, E>(self, closure: F) -> StdResult<&'a mut Writer<W>, E>
    where
        F: FnOnce(&mut Writer<W>) -> StdResult<(), E>,
        E: From<Error>,
    {
        self.writer.open(self.name, &self.attrs, false)?;
        closure(self.writer)?;
        self.writer.close(self.name)?;
        Ok(self.writer)
    }
}

//! Native replay driver for the framing loop of `transport::junos_local::Receiver::recv`
//! (textually the same loop as `transport::tls::Receiver::recv`).  Runs against the real
//! tokio / bytes / memchr crates: a child `sh` process plays the peer and controls the
//! chunking of its stdout with short sleeps.
//!
//! Input: env REPLAY_CHUNKS = chunks separated by '|', optional trailing "EOF" chunk meaning
//! "then close", e.g. `]]>|]]>` or `<a/>|EOF`.  env REPLAY_EXPECT = `ok:<message>` or `err`.
use super::*;
use std::time::Duration;

fn spawn_peer(chunks: &[String], close: bool) -> (Arc<Child>, ChildStdout) {
    let mut script = String::new();
    for c in chunks {
        script.push_str(&format!("printf '%s' '{}'; sleep 0.15; ", c.replace('\'', "'\\''")));
    }
    if !close {
        script.push_str("sleep 5");
    }
    let mut child = Command::new("sh")
        .arg("-c")
        .arg(script)
        .stdin(Stdio::piped())
        .stdout(Stdio::piped())
        .stderr(Stdio::null())
        .kill_on_drop(true)
        .spawn()
        .unwrap();
    let stdout = child.stdout.take().unwrap();
    (Arc::new(child), stdout)
}

#[tokio::test(flavor = "current_thread")]
async fn replay() {
    let spec = std::env::var("REPLAY_CHUNKS").unwrap_or_else(|_| "]]>|]]>".to_string());
    let expect = std::env::var("REPLAY_EXPECT").unwrap_or_else(|_| "ok:]]>]]>".to_string());
    let mut chunks: Vec<String> = spec.split('|').map(str::to_string).collect();
    let close = chunks.last().map(|c| c == "EOF").unwrap_or(false);
    if close {
        let _ = chunks.pop();
    }
    let (handle, stdout) = spawn_peer(&chunks, close);
    let mut rx = Receiver::new(handle, stdout);
    let started = std::time::Instant::now();
    let res = tokio::time::timeout(Duration::from_millis(2500), rx.recv()).await;
    println!("REPLAY result after {:?}: {:?}", started.elapsed(), res);
    match res {
        Err(_) => panic!("REPLAY: recv() did not complete within 2.5 s (hang or busy loop)"),
        Ok(Ok(msg)) => {
            let want = expect.strip_prefix("ok:").expect("REPLAY: expected an error, got a message");
            assert_eq!(&msg[..], want.as_bytes(), "REPLAY: wrong message");
        }
        Ok(Err(e)) => {
            assert!(expect == "err", "REPLAY: expected a message, got error {e}");
        }
    }
}

//! Child module of `message::rpc::operation`: C10 for the `<url>` writer.  `Url` values are built
//! directly from their private field: `Url::try_new` (capability scan over heap strings, C09's
//! subject) does not fit CBMC, and C10 is about what `write_xml` does with the value.
use super::*;
use quick_xml::writer::{self as wlog, WKind};

/// iri-string's validator (third-party parser) is replaced by acceptance: the URLs below are
/// valid RFC 3986 URIs.
pub fn stub_iri_validate_ok<S: iri_string::spec::Spec>(_s: &str) -> Result<(), iri_string::validate::Error> {
    Ok(())
}

/// the log shows `value` exactly once as an *escaped* text node, and no raw access to the sink
fn text_carried_escaped(value: &str) -> (bool, bool) {
    let log = wlog::log();
    let mut raw = false;
    let mut count = 0;
    let mut i = 0;
    while i < wlog::WLOG_CAP {
        if i < log.n {
            let e = &log.entries[i];
            match e.kind {
                WKind::RawAccess => raw = true,
                WKind::Text => {
                    if e.escaped && e.text_len == value.len() && e.text.as_slice() == value.as_bytes() {
                        count += 1;
                    }
                }
                _ => {}
            }
        }
        i += 1;
    }
    (count == 1 && !log.overflow, raw)
}

/// C10: the text of a `<url>` element goes through the escaping writer with its exact value -
/// for a URL without and for URLs with the XML metacharacters a URI may legally contain (`&`,
/// `'`); which of the three URLs is written is the solver's choice.
#[kani::proof]
#[kani::unwind(50)]
#[kani::stub(iri_string::validate::iri, stub_iri_validate_ok)]
fn c10_url_text_is_escaped() {
    const URLS: [&str; 3] = ["http://h/c?a=b", "http://h/c?a&b", "http://h/?q='&'"];
    let which: u8 = kani::any();
    kani::assume(which < 3);
    let mut k = 0u8;
    while k < 3 {
        if k == which {
            let text = URLS[k as usize];
            let url = Url { inner: UriStr::new(text).unwrap().into() };
            wlog::reset_log();
            let mut w = quick_xml::Writer::new(Vec::new());
            let ok = url.write_xml(&mut w).is_ok();
            assert!(ok, "C10 url: <url> could not be written");
            let (carried, raw) = text_carried_escaped(text);
            assert!(!raw, "C10 url: URL written through the raw path");
            assert!(carried, "C10 url: URL does not reach the message as escaped text with its exact value");
            kani::cover!(k == 1, "URL with an ampersand written");
            std::mem::forget((w, url));
        }
        k += 1;
    }
}

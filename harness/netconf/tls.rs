//! C06 / C07 / C18(transport part) for `transport::tls::Receiver::recv`.
//! Child module of `transport::tls` (needs the private `Receiver::new`).
use super::*;
use tokio::model::{self, Step, CHUNK_CAP, EMPTY_STEP, MAX_STEPS};

include!("framing_common.rs");

/// Stub for the private grow path of `BytesMut` (realloc + symbolic-size memcpy, which CBMC
/// cannot digest).  Within the bounds of these harnesses (<= 16 stream bytes, capacity 1024)
/// growth is unreachable; the stub *asserts* that instead of assuming it.
pub fn no_grow(_b: &mut BytesMut, _additional: usize) {
    assert!(false, "model bound exceeded: BytesMut would have to grow");
}

fn receiver() -> Receiver {
    let stream = tokio_rustls::client::TlsStream::model(TcpStream::model());
    let (read, _write) = tokio::io::split(stream);
    let mut rx = Receiver::new(read);
    // the 1 KiB read buffer of `Receiver::new` is replaced by a 32-byte one: the capacity only
    // decides when the buffer has to grow (never, for the <= 16 stream bytes explored here) and
    // CBMC pays for every byte of it
    rx.buf = BytesMut::with_capacity(32);
    rx
}

fn script_from(plan: &Plan, tail: Option<Step>) -> usize {
    let mut steps = [EMPTY_STEP; MAX_STEPS];
    let mut k = 0;
    let mut prev = 0;
    while k < 4 {
        if k < plan.n {
            let mut bytes = [0u8; CHUNK_CAP];
            let len = plan.cut[k] - prev;
            let mut j = 0;
            while j < CHUNK_CAP {
                if j < len {
                    bytes[j] = plan.stream[prev + j];
                }
                j += 1;
            }
            steps[k] = Step::Data { len: len as u8, bytes };
            prev = plan.cut[k];
        }
        k += 1;
    }
    let mut n = plan.n;
    if let Some(t) = tail {
        steps[n] = t;
        n += 1;
    }
    model::set_script(steps, n);
    n
}

fn bytes_eq(b: &Bytes, plan: &Plan, from: usize, to: usize) -> bool {
    if b.len() != to - from {
        return false;
    }
    let mut i = 0;
    while i < MAX_STREAM {
        if i < b.len() && b[i] != plan.stream[from + i] {
            return false;
        }
        i += 1;
    }
    true
}

/// C06: k-th recv() returns exactly the k-th delimiter-terminated message, as soon as the
/// chunk carrying its last delimiter byte has been read, for every segmentation within the
/// given bounds.
fn c06_tls_body(two: bool, max_payload: usize, max_chunks: usize) {
    let plan = any_plan_bounded(two, max_payload, max_chunks);
    let _ = script_from(&plan, None);
    let mut rx = receiver();
    let e1 = first_marker_end(&plan, 0).unwrap();
    kani::assume(e1 == plan.m1);
    let r1 = model::run_bounded(rx.recv(), 1);
    match &r1 {
        Some(Ok(msg)) => {
            assert!(bytes_eq(msg, &plan, 0, plan.m1), "C06 tls: first message differs from the first delimiter-terminated prefix");
            assert!(model::script().reads == chunk_of(&plan, plan.m1) + 1, "C06 tls: first message needed more reads than the one delivering its delimiter");
        }
        Some(Err(_)) => assert!(false, "C06 tls: error on a well-formed stream"),
        None => assert!(false, "C06 tls: first message not delivered although its delimiter has arrived"),
    }
    if !two {
        kani::cover!(plan.n == max_chunks && plan.cut[0] < plan.m1 && plan.cut[0] + 6 > plan.m1, "a cut inside the delimiter");
        std::mem::forget(r1);
        std::mem::forget(rx);
        return;
    }
    let r2 = model::run_bounded(rx.recv(), 1);
    match &r2 {
        Some(Ok(msg)) => {
            assert!(bytes_eq(msg, &plan, plan.m1, plan.m2), "C06 tls: second message differs");
            assert!(model::script().reads == plan.n, "C06 tls: second message delivery read count");
        }
        Some(Err(_)) => assert!(false, "C06 tls: error on a well-formed stream (2nd)"),
        None => assert!(false, "C06 tls: second message not delivered although its delimiter has arrived"),
    }
    kani::cover!(plan.n == max_chunks && plan.m1 < plan.total, "two messages, maximal number of chunks");
    kani::cover!(plan.n == 1, "both messages in one chunk");
    std::mem::forget(r1);
    std::mem::forget(r2);
    std::mem::forget(rx);
}

/// C06 (tls), one message, payload <= 2 bytes, 1..=3 chunks: every cut position, in
/// particular the five inside the delimiter.
#[kani::proof]
#[kani::unwind(18)]
#[kani::stub(bytes::BytesMut::reserve_inner, no_grow)]
fn c06_tls_one_message_cuts() {
    c06_tls_body(false, 2, 3)
}

/// C06 (tls), two messages, payload <= 1 byte, 1..=2 chunks: several messages per chunk,
/// one cut anywhere.
#[kani::proof]
#[kani::unwind(18)]
#[kani::stub(bytes::BytesMut::reserve_inner, no_grow)]
fn c06_tls_two_messages() {
    c06_tls_body(true, 1, 2)
}

/// C06 (tls), thorough: two messages, payload <= 2 bytes, 1..=4 chunks.
#[kani::proof]
#[kani::unwind(18)]
#[kani::stub(bytes::BytesMut::reserve_inner, no_grow)]
fn c06_tls_segmentation() {
    c06_tls_body(true, 2, 4)
}

/// C07: after the peer closed (cleanly or abruptly) recv() completes with an error within a
/// bounded number of further reads — it neither hangs nor spins.
#[kani::proof]
#[kani::unwind(18)]
#[kani::stub(bytes::BytesMut::reserve_inner, no_grow)]
fn c07_tls_disconnect() {
    let plan = any_plan(false);
    // the peer closes after delivering a strict prefix of message 1 (possibly nothing)
    let keep: usize = kani::any();
    kani::assume(keep < plan.m1);
    let abrupt: bool = kani::any();
    let mut steps = [EMPTY_STEP; MAX_STEPS];
    let mut n = 0;
    if keep > 0 {
        let mut bytes = [0u8; CHUNK_CAP];
        let mut j = 0;
        while j < CHUNK_CAP {
            if j < keep {
                bytes[j] = plan.stream[j];
            }
            j += 1;
        }
        steps[0] = Step::Data { len: keep as u8, bytes };
        n = 1;
    }
    steps[n] = if abrupt { Step::Abort } else { Step::Eof };
    n += 1;
    model::set_script(steps, n);
    let mut rx = receiver();
    // one poll suffices when the loop terminates: every read is answered at once (no spurious Pending)
    let r = model::run_bounded(rx.recv(), 1);
    assert!(!model::script().overrun, "C07 tls: recv() keeps reading after the peer closed (busy loop)");
    match &r {
        Some(Err(_)) => {}
        Some(Ok(_)) => assert!(false, "C07 tls: a message was fabricated from a truncated stream"),
        None => assert!(false, "C07 tls: recv() still pending after the peer closed"),
    }
    kani::cover!(!abrupt && keep > 0, "clean close in mid-message");
    kani::cover!(abrupt && keep == 0, "abrupt close before any byte");
    std::mem::forget(r);
    std::mem::forget(rx);
}

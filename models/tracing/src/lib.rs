//! Verification model of `tracing`: every event macro expands to `()`; no field expression
//! is evaluated.  Kani 0.68 ICEs on the real macros (DESIGN.md §2.2).
pub use verif_tracing_attributes::instrument;

#[macro_export]
macro_rules! trace { ($($t:tt)*) => {{}}; }
#[macro_export]
macro_rules! debug { ($($t:tt)*) => {{}}; }
#[macro_export]
macro_rules! info { ($($t:tt)*) => {{}}; }
#[macro_export]
macro_rules! warn { ($($t:tt)*) => {{}}; }
#[macro_export]
macro_rules! error { ($($t:tt)*) => {{}}; }

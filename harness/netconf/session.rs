//! Harnesses that need `Session`/`Context` internals.  Child module of `session`.
//!
//! C09: builders against every capability set.
use super::*;
use crate::capabilities::Capability;
use crate::message::rpc::operation::{
    edit_config::{DefaultOperation, ErrorOption, TestOption},
    CancelCommit, Commit, CopyConfig, Datastore, DeleteConfig, DiscardChanges, EditConfig, Filter, Get, GetConfig, KillSession, Lock,
    Opaque, Token, Unlock, Validate,
};
use crate::message::rpc::Operation;

/// Server capability bits.
#[derive(Clone, Copy)]
pub struct Caps {
    pub writable_running: bool,
    pub candidate: bool,
    pub cc10: bool,
    pub cc11: bool,
    pub rollback: bool,
    pub v10: bool,
    pub v11: bool,
    pub startup: bool,
    pub xpath: bool,
    pub junos: bool,
    pub url: bool,
    pub url_file: bool,
    pub url_ftp: bool,
    pub url_http: bool,
}

impl Caps {
    pub fn any() -> Self {
        let c = Self {
            writable_running: kani::any(),
            candidate: kani::any(),
            cc10: kani::any(),
            cc11: kani::any(),
            rollback: kani::any(),
            v10: kani::any(),
            v11: kani::any(),
            startup: kani::any(),
            xpath: kani::any(),
            junos: kani::any(),
            url: kani::any(),
            url_file: kani::any(),
            url_ftp: kani::any(),
            url_http: kani::any(),
        };
        // scheme bits only mean something when :url is advertised
        kani::assume(c.url || !(c.url_file || c.url_ftp || c.url_http));
        c
    }

    pub fn context(&self) -> Context {
        let mut v: Vec<Capability> = Vec::new();
        v.push(Capability::Base(Base::V1_0));
        if self.writable_running {
            v.push(Capability::WritableRunning);
        }
        if self.candidate {
            v.push(Capability::Candidate);
        }
        if self.cc10 {
            v.push(Capability::ConfirmedCommitV1_0);
        }
        if self.cc11 {
            v.push(Capability::ConfirmedCommitV1_1);
        }
        if self.rollback {
            v.push(Capability::RollbackOnError);
        }
        if self.v10 {
            v.push(Capability::ValidateV1_0);
        }
        if self.v11 {
            v.push(Capability::ValidateV1_1);
        }
        if self.startup {
            v.push(Capability::Startup);
        }
        if self.xpath {
            v.push(Capability::XPath);
        }
        if self.junos {
            v.push(Capability::JunosXmlManagementProtocol);
        }
        if self.url {
            let mut schemes: Vec<Box<str>> = Vec::new();
            if self.url_file {
                schemes.push("file".into());
            }
            if self.url_ftp {
                schemes.push("ftp".into());
            }
            if self.url_http {
                schemes.push("http".into());
            }
            v.push(Capability::Url(schemes));
        }
        let server: Capabilities = v.into_iter().collect();
        let client: Capabilities = std::iter::once(Capability::Base(Base::V1_0)).collect();
        Context::new(SessionId::new(7).unwrap(), Base::V1_0, client, server)
    }

    // RFC 6241 §8 oracle --------------------------------------------------------------------
    pub fn source_ok(&self, d: Datastore) -> bool {
        match d {
            Datastore::Running => true,
            Datastore::Candidate => self.candidate,
            Datastore::Startup => self.startup,
        }
    }
    pub fn target_ok(&self, d: Datastore) -> bool {
        match d {
            Datastore::Running => self.writable_running,
            Datastore::Candidate => self.candidate,
            Datastore::Startup => self.startup,
        }
    }
    pub fn lock_ok(&self, d: Datastore) -> bool {
        self.source_ok(d)
    }
    pub fn validate(&self) -> bool {
        self.v10 || self.v11
    }
    pub fn confirmed(&self) -> bool {
        self.cc10 || self.cc11
    }
    pub fn scheme_ok(&self, s: u8) -> bool {
        self.url
            && match s {
                0 => self.url_file,
                1 => self.url_ftp,
                _ => self.url_http,
            }
    }
}

pub fn any_datastore() -> Datastore {
    let d: u8 = kani::any();
    kani::assume(d < 3);
    match d {
        0 => Datastore::Running,
        1 => Datastore::Candidate,
        _ => Datastore::Startup,
    }
}

pub fn url_for(s: u8) -> &'static str {
    match s {
        0 => "file:///c",
        1 => "ftp://h/c",
        _ => "http://h/c",
    }
}

/// filter choice: 0 = none, 1 = subtree, 2 = xpath
pub fn filter_for(f: u8) -> Option<Filter> {
    match f {
        0 => None,
        1 => Some(Filter::Subtree(String::new())),
        _ => Some(Filter::XPath(String::new())),
    }
}

#[kani::proof]
#[kani::unwind(16)]
fn c09_get() {
    let caps = Caps::any();
    let ctx = caps.context();
    let f: u8 = kani::any();
    kani::assume(f < 3);
    let r = Get::new(&ctx, |b| b.filter(filter_for(f)).finish());
    let allowed = f != 2 || caps.xpath;
    assert!(r.is_ok() == allowed, "C09 get: request built iff its filter type is permitted by the capabilities");
    kani::cover!(r.is_ok() && f == 2, "xpath filter accepted");
    kani::cover!(r.is_err(), "get refused");
    std::mem::forget(r);
    std::mem::forget(ctx);
}

#[kani::proof]
#[kani::unwind(16)]
fn c09_get_config() {
    let caps = Caps::any();
    let ctx = caps.context();
    let f: u8 = kani::any();
    kani::assume(f < 3);
    let d = any_datastore();
    let r = GetConfig::<Opaque>::new(&ctx, |b| b.source(d)?.filter(filter_for(f))?.finish());
    let allowed = caps.source_ok(d) && (f != 2 || caps.xpath);
    assert!(r.is_ok() == allowed, "C09 get-config: request built iff source datastore and filter type are permitted");
    kani::cover!(r.is_ok() && f == 2 && matches!(d, Datastore::Startup), "startup + xpath accepted");
    kani::cover!(r.is_err(), "get-config refused");
    std::mem::forget(r);
    std::mem::forget(ctx);
}

#[kani::proof]
#[kani::unwind(16)]
fn c09_lock_unlock() {
    let caps = Caps::any();
    let ctx = caps.context();
    let d = any_datastore();
    let r = Lock::new(&ctx, |b| b.target(d)?.finish());
    let u = Unlock::new(&ctx, |b| b.target(d)?.finish());
    assert!(r.is_ok() == caps.lock_ok(d), "C09 lock: built iff the target datastore is permitted");
    assert!(u.is_ok() == caps.lock_ok(d), "C09 unlock: built iff the target datastore is permitted");
    kani::cover!(r.is_ok() && matches!(d, Datastore::Candidate), "lock candidate accepted");
    kani::cover!(r.is_err(), "lock refused");
    std::mem::forget((r, u));
    std::mem::forget(ctx);
}

#[kani::proof]
#[kani::unwind(16)]
fn c09_commit() {
    let caps = Caps::any();
    let ctx = caps.context();
    // which optional parameters the caller sets
    let set_confirmed: bool = kani::any();
    let confirmed_val: bool = kani::any();
    let set_timeout: bool = kani::any();
    let set_persist: bool = kani::any();
    let set_persist_id: bool = kani::any();
    let r = Commit::new(&ctx, |mut b| {
        if set_confirmed {
            b = b.confirmed(confirmed_val)?;
        }
        if set_timeout {
            b = b.confirm_timeout(std::time::Duration::from_secs(30))?;
        }
        if set_persist {
            b = b.persist(Some(Token::new("t")))?;
        }
        if set_persist_id {
            b = b.persist_id(Some(Token::new("t")))?;
        }
        b.finish()
    });
    let confirmed = set_confirmed && confirmed_val;
    // what the request content needs (RFC 6241 §8.3, §8.4)
    let needs_ok = caps.candidate
        && (!(set_confirmed || set_timeout) || caps.confirmed())
        && (!(set_persist || set_persist_id) || caps.cc11);
    // parameter combinations the operation itself forbids
    let combo_ok = !(confirmed && set_persist_id) && !(!confirmed && set_persist);
    if r.is_ok() {
        assert!(needs_ok, "C09 commit: request built although a parameter is not permitted by the capabilities");
    }
    if needs_ok && combo_ok {
        assert!(r.is_ok(), "C09 commit: request within the advertised capabilities refused");
    }
    kani::cover!(r.is_ok() && confirmed && set_persist, "confirmed + persist accepted");
    kani::cover!(r.is_err() && caps.candidate, "commit refused for a parameter");
    std::mem::forget(r);
    std::mem::forget(ctx);
}

#[kani::proof]
#[kani::unwind(16)]
fn c09_simple_ops() {
    let caps = Caps::any();
    let ctx = caps.context();
    let set_pid: bool = kani::any();
    let cc = CancelCommit::new(&ctx, |mut b| {
        if set_pid {
            b = b.persist_id(Some(Token::new("t")))?;
        }
        b.finish()
    });
    assert!(cc.is_ok() == caps.cc11, "C09 cancel-commit: built iff :confirmed-commit:1.1");
    let dc = DiscardChanges::new(&ctx, |b| b.finish());
    assert!(dc.is_ok() == caps.candidate, "C09 discard-changes: built iff :candidate");
    let sid: u32 = kani::any();
    let ks = KillSession::new(&ctx, |b| b.session_id(sid)?.finish());
    assert!(ks.is_ok() == (sid != 0 && sid != 7), "C09 kill-session: built iff the id is valid and not the own session");
    let cs = CloseSession::new(&ctx, Builder::finish);
    assert!(cs.is_ok(), "C09 close-session: always permitted");
    kani::cover!(cc.is_ok() && set_pid, "cancel-commit with persist-id accepted");
    std::mem::forget((cc, dc, ks, cs));
    std::mem::forget(ctx);
}

#[kani::proof]
#[kani::unwind(16)]
fn c09_validate_delete() {
    let caps = Caps::any();
    let ctx = caps.context();
    let d = any_datastore();
    let inline: bool = kani::any();
    let v = Validate::new(&ctx, |b| if inline { b.config(String::new()).finish() } else { b.source(d)?.finish() });
    let v_allowed = caps.validate() && (inline || caps.source_ok(d));
    assert!(v.is_ok() == v_allowed, "C09 validate: built iff :validate and the source datastore are permitted");
    let del = DeleteConfig::new(&ctx, |b| b.target(d)?.finish());
    let del_allowed = !matches!(d, Datastore::Running) && caps.target_ok(d);
    assert!(del.is_ok() == del_allowed, "C09 delete-config: built iff the target is not running and is permitted");
    kani::cover!(v.is_ok() && !inline, "validate datastore accepted");
    kani::cover!(del.is_ok(), "delete-config accepted");
    std::mem::forget((v, del));
    std::mem::forget(ctx);
}

#[kani::proof]
#[kani::unwind(16)]
fn c09_copy_config() {
    let caps = Caps::any();
    let ctx = caps.context();
    let t = any_datastore();
    let s = any_datastore();
    let inline: bool = kani::any();
    let r = CopyConfig::new(&ctx, |b| {
        let b = b.target(t)?;
        if inline {
            b.config(String::new()).finish()
        } else {
            b.source(s)?.finish()
        }
    });
    let allowed = caps.target_ok(t) && (inline || caps.source_ok(s));
    assert!(r.is_ok() == allowed, "C09 copy-config: built iff target and source datastores are permitted");
    kani::cover!(r.is_ok() && !inline, "copy-config datastore->datastore accepted");
    kani::cover!(r.is_err(), "copy-config refused");
    std::mem::forget(r);
    std::mem::forget(ctx);
}

#[kani::proof]
#[kani::unwind(16)]
fn c09_edit_config() {
    let caps = Caps::any();
    let ctx = caps.context();
    let t = any_datastore();
    let set_test: bool = kani::any();
    let test: u8 = kani::any();
    kani::assume(test < 3);
    let set_err: bool = kani::any();
    let err: u8 = kani::any();
    kani::assume(err < 3);
    let r = EditConfig::<Opaque>::new(&ctx, |b| {
        let mut b = b.target(t)?.config(Opaque::from("")).default_operation(DefaultOperation::None);
        if set_test {
            b = b.test_option(match test {
                0 => TestOption::TestThenSet,
                1 => TestOption::Set,
                _ => TestOption::TestOnly,
            })?;
        }
        if set_err {
            b = b.error_option(match err {
                0 => ErrorOption::StopOnError,
                1 => ErrorOption::ContinueOnError,
                _ => ErrorOption::RollbackOnError,
            })?;
        }
        b.finish()
    });
    let allowed = caps.target_ok(t)
        && (!set_test || if test == 2 { caps.v11 } else { caps.validate() })
        && (!set_err || err != 2 || caps.rollback);
    assert!(r.is_ok() == allowed, "C09 edit-config: built iff target, test-option and error-option are permitted");
    kani::cover!(r.is_ok() && set_test && test == 2 && set_err && err == 2, "test-only + rollback-on-error accepted");
    kani::cover!(r.is_err(), "edit-config refused");
    std::mem::forget(r);
    std::mem::forget(ctx);
}

#[kani::proof]
#[kani::unwind(16)]
fn c09_url() {
    let caps = Caps::any();
    let ctx = caps.context();
    let s: u8 = kani::any();
    kani::assume(s < 3);
    let r = EditConfig::<Opaque>::new(&ctx, |b| b.target(Datastore::Candidate)?.url(url_for(s))?.finish());
    assert!(r.is_ok() == (caps.candidate && caps.scheme_ok(s)), "C09 edit-config url: built iff the URL scheme is advertised in :url");
    let d = DeleteConfig::new(&ctx, |b| b.url(url_for(s))?.finish());
    assert!(d.is_ok() == caps.scheme_ok(s), "C09 delete-config url: built iff the URL scheme is advertised in :url");
    kani::cover!(r.is_ok() && s == 1, "ftp url accepted");
    kani::cover!(d.is_err() && caps.url, "url refused although :url advertised (other scheme)");
    std::mem::forget((r, d));
    std::mem::forget(ctx);
}

#[cfg(feature = "junos")]
#[kani::proof]
#[kani::unwind(16)]
fn c09_junos_ops() {
    use crate::message::rpc::operation::junos::{CloseConfiguration, CommitConfiguration, LockConfiguration, OpenConfiguration, UnlockConfiguration};
    let caps = Caps::any();
    let ctx = caps.context();
    let o = OpenConfiguration::new(&ctx, |b| b.ephemeral(Some("x")).finish());
    let c = CloseConfiguration::new(&ctx, |b| b.finish());
    let l = LockConfiguration::new(&ctx, |b| b.finish());
    let u = UnlockConfiguration::new(&ctx, |b| b.finish());
    let cm = CommitConfiguration::new(&ctx, |b| b.finish());
    assert!(o.is_ok() == caps.junos, "C09 open-configuration: built iff the Junos capability is advertised");
    assert!(c.is_ok() == caps.junos, "C09 close-configuration: built iff the Junos capability is advertised");
    assert!(l.is_ok() == caps.junos, "C09 lock-configuration: built iff the Junos capability is advertised");
    assert!(u.is_ok() == caps.junos, "C09 unlock-configuration: built iff the Junos capability is advertised");
    assert!(cm.is_ok() == caps.junos, "C09 commit-configuration: built iff the Junos capability is advertised");
    kani::cover!(o.is_ok(), "junos op accepted");
    kani::cover!(o.is_err(), "junos op refused");
    std::mem::forget((o, c, l, u, cm));
    std::mem::forget(ctx);
}

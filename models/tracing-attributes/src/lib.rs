//! Verification model of `tracing-attributes`: `#[instrument(..)]` is the identity.
//! (The real macro wraps the body in span enter/exit code; bgpfu-rs relies on it only for
//! logging, which is outside every property except C20 — C20 reads the attribute arguments
//! from the source text instead, see DESIGN.md.)
use proc_macro::TokenStream;

#[proc_macro_attribute]
pub fn instrument(_args: TokenStream, item: TokenStream) -> TokenStream {
    item
}

//! Model of `quick_xml::events`.
pub mod attributes;

use std::borrow::Cow;
use std::fmt;
use std::ops::Deref;

use crate::errors::Result;
use crate::name::{LocalName, QName};
use crate::tape::{self, ELEM_ATTRS};

use self::attributes::{Attribute, Attributes};

/// Leak `v` and hand out a `'static` view: the model's event types own no heap memory, so
/// that they have no drop glue (see errors.rs); leaking is harmless in a verification model.
pub(crate) fn leak(v: Vec<u8>) -> &'static [u8] {
    Box::leak(v.into_boxed_slice())
}

fn cow_bytes<'a>(c: Cow<'a, str>) -> &'a [u8] {
    match c {
        Cow::Borrowed(s) => s.as_bytes(),
        Cow::Owned(s) => leak(s.into_bytes()),
    }
}

/// An element name: interned (reader side) or literal (user constructed).
///
/// Deliberately a *flat struct of integers and a raw pointer* and not an enum: events live
/// inside enum payloads (`Event`, `Result`), the code under test reads them through references
/// into those payloads, and CBMC can only constant-fold such a read when the field it lands on
/// has exactly the type that is read.  The discriminant of a niche-optimised enum is read with
/// a cast type and always comes back symbolic (DESIGN.md, cost rules).
#[derive(Clone, Copy)]
pub(crate) struct NameRef<'a> {
    id: u8,
    is_lit: u8,
    lit: *const u8,
    lit_len: usize,
    _p: std::marker::PhantomData<&'a [u8]>,
}

unsafe impl Send for NameRef<'_> {}
unsafe impl Sync for NameRef<'_> {}

#[allow(non_snake_case)]
impl<'a> NameRef<'a> {
    pub(crate) const fn Id(id: u8) -> Self {
        Self { id, is_lit: 0, lit: std::ptr::null(), lit_len: 0, _p: std::marker::PhantomData }
    }
    pub(crate) const fn Lit(c: &'a [u8]) -> Self {
        Self { id: 0, is_lit: 1, lit: c.as_ptr(), lit_len: c.len(), _p: std::marker::PhantomData }
    }
    #[inline]
    fn bytes(&self) -> &'a [u8] {
        if self.is_lit == 0 {
            tape::name_bytes(self.id)
        } else {
            unsafe { std::slice::from_raw_parts(self.lit, self.lit_len) }
        }
    }
    /// the name without its namespace prefix (table names: offset registered with the table)
    #[inline]
    fn local_bytes(&self) -> &'a [u8] {
        if self.is_lit == 0 {
            let b = tape::name_bytes(self.id);
            &b[tape::local_off(self.id)..]
        } else {
            // literal names (writer side, harness-made tags) never carry a prefix in this model
            self.bytes()
        }
    }
    fn owned(self) -> NameRef<'static> {
        if self.is_lit == 0 {
            NameRef::Id(self.id)
        } else {
            NameRef::Lit(leak(self.bytes().to_vec()))
        }
    }
}

impl PartialEq for NameRef<'_> {
    fn eq(&self, other: &Self) -> bool {
        // table entries are pairwise distinct
        if self.is_lit == 0 && other.is_lit == 0 {
            self.id == other.id
        } else {
            self.bytes() == other.bytes()
        }
    }
}
impl Eq for NameRef<'_> {}

// ---------------------------------------------------------------------------------------------

#[derive(Clone, PartialEq, Eq)]
pub struct BytesStart<'a> {
    pub(crate) name: NameRef<'a>,
    /// attributes live in the tape (`slot`, `attr0 .. attr0 + nattr`)
    pub(crate) slot: u8,
    pub(crate) attr0: u8,
    pub(crate) nattr: u8,
}

impl<'a> BytesStart<'a> {
    pub fn new<C: Into<Cow<'a, str>>>(name: C) -> Self {
        Self { name: NameRef::Lit(cow_bytes(name.into())), slot: 0, attr0: 0, nattr: 0 }
    }

    /// Model constructor: start tag with the interned name `id` and no attributes.
    pub const fn from_id(id: u8) -> Self {
        Self { name: NameRef::Id(id), slot: 0, attr0: 0, nattr: 0 }
    }

    /// Model constructor: the start tag the reader delivers for `cell` of the tape in `slot`.
    pub const fn from_cell(slot: u8, cell: &tape::Cell) -> Self {
        Self { name: NameRef::Id(cell.name), slot, attr0: cell.attr0, nattr: cell.nattr }
    }

    pub fn into_owned(self) -> BytesStart<'static> {
        BytesStart { name: self.name.owned(), slot: self.slot, attr0: self.attr0, nattr: self.nattr }
    }

    /// Model hook: the `attr0` byte of the tape cell this start tag came from.  Cells without
    /// attributes (`nattr == 0`) use it as a free tag that harness-side stubs can read.
    pub fn model_tag(&self) -> u8 {
        self.attr0
    }

    pub fn to_owned(&self) -> BytesStart<'static> {
        self.clone().into_owned()
    }

    pub fn borrow(&self) -> BytesStart<'_> {
        self.clone()
    }

    pub fn to_end(&self) -> BytesEnd<'_> {
        BytesEnd { name: self.name }
    }

    pub fn name(&self) -> QName<'_> {
        QName(self.name.bytes())
    }

    pub fn local_name(&self) -> LocalName<'_> {
        LocalName(self.name.local_bytes())
    }

    pub fn attributes(&self) -> Attributes<'_> {
        Attributes { slot: self.slot, attr0: self.attr0, nattr: self.nattr, pos: 0, with_checks: true, _p: std::marker::PhantomData }
    }

    pub fn try_get_attribute<N: AsRef<[u8]> + Sized>(&'a self, attr_name: N) -> Result<Option<Attribute<'a>>> {
        let mut i = 0;
        let n = self.nattr as usize;
        while i < n && i < ELEM_ATTRS {
            let a = tape::attr_at(self.slot, self.attr0 as usize + i);
            let key = tape::attr_name(a.key).qname;
            if key == attr_name.as_ref() {
                return Ok(Some(Attribute { key: QName(key), value: Cow::Borrowed(tape::text_entry(a.val).raw.as_bytes()) }));
            }
            i += 1;
        }
        Ok(None)
    }
}

impl fmt::Debug for BytesStart<'_> {
    fn fmt(&self, f: &mut fmt::Formatter<'_>) -> fmt::Result {
        write!(f, "BytesStart {{ name: {:?}, nattr: {} }}", String::from_utf8_lossy(self.name.bytes()), self.nattr)
    }
}

impl Deref for BytesStart<'_> {
    type Target = [u8];
    fn deref(&self) -> &[u8] {
        self.name.bytes()
    }
}

// ---------------------------------------------------------------------------------------------

#[derive(Clone, PartialEq, Eq)]
pub struct BytesEnd<'a> {
    pub(crate) name: NameRef<'a>,
}

impl<'a> BytesEnd<'a> {
    pub fn new<C: Into<Cow<'a, str>>>(name: C) -> Self {
        Self { name: NameRef::Lit(cow_bytes(name.into())) }
    }
    pub const fn from_id(id: u8) -> Self {
        Self { name: NameRef::Id(id) }
    }
    pub fn into_owned(self) -> BytesEnd<'static> {
        BytesEnd { name: self.name.owned() }
    }
    pub fn borrow(&self) -> BytesEnd<'_> {
        self.clone()
    }
    pub fn name(&self) -> QName<'_> {
        QName(self.name.bytes())
    }
    pub fn local_name(&self) -> LocalName<'_> {
        LocalName(self.name.local_bytes())
    }
}

impl fmt::Debug for BytesEnd<'_> {
    fn fmt(&self, f: &mut fmt::Formatter<'_>) -> fmt::Result {
        write!(f, "BytesEnd {{ name: {:?} }}", String::from_utf8_lossy(self.name.bytes()))
    }
}

impl Deref for BytesEnd<'_> {
    type Target = [u8];
    fn deref(&self) -> &[u8] {
        self.name.bytes()
    }
}

// ---------------------------------------------------------------------------------------------

/// Model of `BytesText`.  `escape` tells the writer whether the content still has to be
/// escaped (`BytesText::new`) or is written as is (`from_escaped`, reader-produced).
#[derive(Clone, Copy, PartialEq, Eq)]
pub struct BytesText<'a> {
    pub(crate) content: &'a [u8],
    pub(crate) escape: bool,
    /// `content` is really `'static` (reader-produced): `into_owned` need not copy
    pub(crate) stat: bool,
}

impl<'a> BytesText<'a> {
    pub fn new(content: &'a str) -> Self {
        Self { content: content.as_bytes(), escape: true, stat: false }
    }
    pub fn from_escaped<C: Into<Cow<'a, str>>>(content: C) -> Self {
        Self { content: cow_bytes(content.into()), escape: false, stat: false }
    }
    pub(crate) fn from_static(t: &'static str) -> Self {
        Self { content: t.as_bytes(), escape: false, stat: true }
    }
    pub fn into_owned(self) -> BytesText<'static> {
        if self.stat {
            // SAFETY: `stat` is only set by `from_static`
            let c: &'static [u8] = unsafe { std::mem::transmute::<&'a [u8], &'static [u8]>(self.content) };
            BytesText { content: c, escape: self.escape, stat: true }
        } else {
            BytesText { content: leak(self.content.to_vec()), escape: self.escape, stat: true }
        }
    }
    pub fn into_inner(self) -> Cow<'a, [u8]> {
        Cow::Borrowed(self.content)
    }
    pub fn borrow(&self) -> BytesText<'_> {
        *self
    }
    /// Model: entity references are not interpreted (tape texts are entity-free by
    /// construction); UTF-8 is not re-validated.
    pub fn unescape(&self) -> Result<Cow<'a, str>> {
        Ok(Cow::Borrowed(unsafe { std::str::from_utf8_unchecked(self.content) }))
    }
}

impl fmt::Debug for BytesText<'_> {
    fn fmt(&self, f: &mut fmt::Formatter<'_>) -> fmt::Result {
        write!(f, "BytesText {{ content: {:?} }}", String::from_utf8_lossy(self))
    }
}

impl Deref for BytesText<'_> {
    type Target = [u8];
    fn deref(&self) -> &[u8] {
        self.content
    }
}

#[derive(Clone, PartialEq, Eq)]
pub struct BytesCData<'a> {
    pub(crate) inner: BytesText<'a>,
}

impl<'a> BytesCData<'a> {
    pub fn new<C: Into<Cow<'a, str>>>(content: C) -> Self {
        Self { inner: BytesText::from_escaped(content) }
    }
    pub fn into_owned(self) -> BytesCData<'static> {
        BytesCData { inner: self.inner.into_owned() }
    }
    pub fn into_inner(self) -> Cow<'a, [u8]> {
        self.inner.into_inner()
    }
}
impl fmt::Debug for BytesCData<'_> {
    fn fmt(&self, f: &mut fmt::Formatter<'_>) -> fmt::Result {
        write!(f, "BytesCData {{ content: {:?} }}", String::from_utf8_lossy(&self.inner))
    }
}
impl Deref for BytesCData<'_> {
    type Target = [u8];
    fn deref(&self) -> &[u8] {
        &self.inner
    }
}

#[derive(Clone, PartialEq, Eq)]
pub struct BytesDecl<'a> {
    pub(crate) inner: BytesText<'a>,
}
impl<'a> BytesDecl<'a> {
    pub fn new(version: &str, encoding: Option<&str>, standalone: Option<&str>) -> BytesDecl<'static> {
        let mut s = String::from("xml version=\"");
        s.push_str(version);
        s.push('"');
        if let Some(e) = encoding {
            s.push_str(" encoding=\"");
            s.push_str(e);
            s.push('"');
        }
        if let Some(e) = standalone {
            s.push_str(" standalone=\"");
            s.push_str(e);
            s.push('"');
        }
        BytesDecl { inner: BytesText::from_escaped(s) }
    }
    pub fn into_owned(self) -> BytesDecl<'static> {
        BytesDecl { inner: self.inner.into_owned() }
    }
}
impl fmt::Debug for BytesDecl<'_> {
    fn fmt(&self, f: &mut fmt::Formatter<'_>) -> fmt::Result {
        write!(f, "BytesDecl {{ content: {:?} }}", String::from_utf8_lossy(&self.inner))
    }
}
impl Deref for BytesDecl<'_> {
    type Target = [u8];
    fn deref(&self) -> &[u8] {
        &self.inner
    }
}

// ---------------------------------------------------------------------------------------------

#[derive(Clone, Debug, PartialEq, Eq)]
pub enum Event<'a> {
    Start(BytesStart<'a>),
    End(BytesEnd<'a>),
    Empty(BytesStart<'a>),
    Text(BytesText<'a>),
    CData(BytesCData<'a>),
    Comment(BytesText<'a>),
    Decl(BytesDecl<'a>),
    PI(BytesText<'a>),
    DocType(BytesText<'a>),
    Eof,
}

impl<'a> Event<'a> {
    pub fn into_owned(self) -> Event<'static> {
        match self {
            Event::Start(e) => Event::Start(e.into_owned()),
            Event::End(e) => Event::End(e.into_owned()),
            Event::Empty(e) => Event::Empty(e.into_owned()),
            Event::Text(e) => Event::Text(e.into_owned()),
            Event::Comment(e) => Event::Comment(e.into_owned()),
            Event::CData(e) => Event::CData(e.into_owned()),
            Event::Decl(e) => Event::Decl(e.into_owned()),
            Event::PI(e) => Event::PI(e.into_owned()),
            Event::DocType(e) => Event::DocType(e.into_owned()),
            Event::Eof => Event::Eof,
        }
    }
    pub fn borrow(&self) -> Event<'_> {
        self.clone()
    }
}

impl Deref for Event<'_> {
    type Target = [u8];
    fn deref(&self) -> &[u8] {
        match self {
            Event::Start(e) | Event::Empty(e) => e,
            Event::End(e) => e,
            Event::Text(e) | Event::Comment(e) | Event::PI(e) | Event::DocType(e) => e,
            Event::Decl(e) => e,
            Event::CData(e) => e,
            Event::Eof => &[],
        }
    }
}

impl<'a> AsRef<Event<'a>> for Event<'a> {
    fn as_ref(&self) -> &Event<'a> {
        self
    }
}

//! Verification model of `memchr` 2.7 (naive loops, no SIMD / cpuid inline asm).
//! Only the API surface used by bgpfu-netconf (`memmem::Finder`) and by `iri-string`
//! (`memchr`, `memchr2`, `memchr3`, `memrchr`) is provided.
#![no_std]
#[cfg(feature = "std")]
extern crate std;

pub fn memchr(needle: u8, haystack: &[u8]) -> Option<usize> {
    let mut i = 0;
    while i < haystack.len() {
        if haystack[i] == needle {
            return Some(i);
        }
        i += 1;
    }
    None
}

pub fn memchr2(n1: u8, n2: u8, haystack: &[u8]) -> Option<usize> {
    let mut i = 0;
    while i < haystack.len() {
        if haystack[i] == n1 || haystack[i] == n2 {
            return Some(i);
        }
        i += 1;
    }
    None
}

pub fn memchr3(n1: u8, n2: u8, n3: u8, haystack: &[u8]) -> Option<usize> {
    let mut i = 0;
    while i < haystack.len() {
        if haystack[i] == n1 || haystack[i] == n2 || haystack[i] == n3 {
            return Some(i);
        }
        i += 1;
    }
    None
}

pub fn memrchr(needle: u8, haystack: &[u8]) -> Option<usize> {
    let mut i = haystack.len();
    while i > 0 {
        i -= 1;
        if haystack[i] == needle {
            return Some(i);
        }
    }
    None
}

pub fn memrchr2(n1: u8, n2: u8, haystack: &[u8]) -> Option<usize> {
    let mut i = haystack.len();
    while i > 0 {
        i -= 1;
        if haystack[i] == n1 || haystack[i] == n2 {
            return Some(i);
        }
    }
    None
}

pub fn memrchr3(n1: u8, n2: u8, n3: u8, haystack: &[u8]) -> Option<usize> {
    let mut i = haystack.len();
    while i > 0 {
        i -= 1;
        if haystack[i] == n1 || haystack[i] == n2 || haystack[i] == n3 {
            return Some(i);
        }
    }
    None
}

pub mod memmem {
    /// Naive substring search with the `memchr::memmem::Finder` API.
    #[derive(Clone, Debug)]
    pub struct Finder<'n> {
        needle: &'n [u8],
    }

    impl<'n> Finder<'n> {
        pub fn new<B: ?Sized + AsRef<[u8]>>(needle: &'n B) -> Finder<'n> {
            Finder { needle: needle.as_ref() }
        }

        pub fn needle(&self) -> &[u8] {
            self.needle
        }

        pub fn find(&self, haystack: &[u8]) -> Option<usize> {
            let n = self.needle.len();
            if n == 0 {
                return Some(0);
            }
            if haystack.len() < n {
                return None;
            }
            let mut i = 0;
            while i + n <= haystack.len() {
                let mut j = 0;
                while j < n && haystack[i + j] == self.needle[j] {
                    j += 1;
                }
                if j == n {
                    return Some(i);
                }
                i += 1;
            }
            None
        }
    }

    pub fn find(haystack: &[u8], needle: &[u8]) -> Option<usize> {
        Finder::new(needle).find(haystack)
    }
}

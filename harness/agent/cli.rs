//! Child module of `cli`: constructors for option structs with private fields.
use super::*;

pub(crate) fn irrd_opts() -> IrrdOpts {
    IrrdOpts { host: String::new(), port: 43 }
}

pub(crate) fn junos_opts() -> JunosOpts {
    JunosOpts { ephemeral_db: String::new() }
}

/// C19 (cli.rs part): frequency 0 selects one-shot mode, everything else daemon mode with that
/// period.
#[kani::proof]
fn c19_frequency_zero_is_one_shot() {
    let f: u64 = kani::any();
    match Frequency::from(f) {
        Frequency::OneShot => assert!(f == 0, "C19: non-zero frequency selected one-shot mode"),
        Frequency::Daemon(n) => assert!(n.get() == f && f != 0, "C19: daemon period differs from the configured frequency"),
    }
    kani::cover!(f == 0, "one-shot");
    kani::cover!(f == 3600, "daemon");
}

use std::fmt;
use std::sync::Arc;

use crate::events::attributes::AttrError;

/// Model of `quick_xml::Error`.
#[derive(Clone, Debug)]
pub enum Error {
    Io(Arc<std::io::Error>),
    NonDecodable(Option<std::str::Utf8Error>),
    UnexpectedEof(String),
    EndEventMismatch { expected: String, found: String },
    UnexpectedToken(String),
    InvalidAttr(AttrError),
    /// Model only: "the tokenizer failed here" (malformed markup, mismatched end tag, bad
    /// escape, …) — an `Err` cell of the tape.
    Injected,
}

pub type Result<T> = std::result::Result<T, Error>;

impl From<std::io::Error> for Error {
    fn from(e: std::io::Error) -> Self {
        Error::Io(Arc::new(e))
    }
}

impl From<std::str::Utf8Error> for Error {
    fn from(e: std::str::Utf8Error) -> Self {
        Error::NonDecodable(Some(e))
    }
}

impl From<std::string::FromUtf8Error> for Error {
    fn from(e: std::string::FromUtf8Error) -> Self {
        Error::NonDecodable(Some(e.utf8_error()))
    }
}

impl From<AttrError> for Error {
    fn from(e: AttrError) -> Self {
        Error::InvalidAttr(e)
    }
}

impl fmt::Display for Error {
    fn fmt(&self, f: &mut fmt::Formatter<'_>) -> fmt::Result {
        f.write_str("xml error (model)")
    }
}

impl std::error::Error for Error {}

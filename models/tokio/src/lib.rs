//! Verification model of the part of tokio 1.37 that bgpfu-rs uses.
//!
//! There is no reactor and no scheduler.  Leaf futures (`Mutex::lock`, `mpsc` send/recv,
//! reads, `Interval::tick`, `Signal::recv`) answer from model state; wakers are ignored.  The
//! harness is the executor: it polls the futures it owns and the spawned tasks
//! ([`model::poll_task`]) in whatever order it wants to explore.
//!
//! Sources of nondeterminism a harness can switch on ([`model::Knobs`]):
//! * `spurious_pending` – every leaf future may answer `Pending` once before it answers from
//!   state.  Real tokio resources do this when the task's cooperative budget is exhausted, so
//!   this is a behaviour of the real library, not an over-approximation.
//! * `select_any_order` – `select!` / `try_join!` start polling at a nondeterministic branch
//!   (tokio picks the start at random).
pub mod fs;
pub mod io;
pub mod model;
pub mod net;
pub mod process;
pub mod signal;
pub mod sync;
pub mod task;
pub mod time;

#[doc(hidden)]
pub mod macros;

pub use task::spawn;

//! `tokio::net` model.
use std::io;
use std::task::Poll;

use crate::io::{scripted_read, scripted_write, AsyncRead, AsyncWrite};

/// Model: anything that can be an address.  Resolution is not modelled.
pub trait ToSocketAddrs {}
impl ToSocketAddrs for str {}
impl ToSocketAddrs for String {}
impl ToSocketAddrs for std::net::SocketAddr {}
impl ToSocketAddrs for (&str, u16) {}
impl ToSocketAddrs for (String, u16) {}
impl ToSocketAddrs for (std::net::IpAddr, u16) {}
impl<T: ToSocketAddrs + ?Sized> ToSocketAddrs for &T {}

static mut CONNECT_FAILS: bool = false;

/// Model hook: make `TcpStream::connect` fail.
pub fn set_connect_fails(on: bool) {
    unsafe { CONNECT_FAILS = on }
}

#[derive(Debug)]
pub struct TcpStream(());

impl TcpStream {
    /// Model constructor (harnesses): a connected stream.
    pub fn model() -> Self {
        TcpStream(())
    }

    pub async fn connect<A: ToSocketAddrs>(_addr: A) -> io::Result<TcpStream> {
        if unsafe { CONNECT_FAILS } {
            Err(io::Error::from(io::ErrorKind::ConnectionRefused))
        } else {
            Ok(TcpStream(()))
        }
    }
}

impl AsyncRead for TcpStream {
    fn poll_read_model(&mut self, out: &mut dyn FnMut(&[u8])) -> Poll<io::Result<usize>> {
        scripted_read(out)
    }
}

impl AsyncWrite for TcpStream {
    fn poll_write_model(&mut self, data: &[u8]) -> Poll<io::Result<usize>> {
        scripted_write(data)
    }
}

//! C08 for `load_configuration::Reply`.  Child module of
//! `message::rpc::operation::junos::load_configuration`.
use super::*;
use crate::message::rpc::error::verif_error as ve;
use crate::verif_support::*;
use quick_xml::events::BytesStart;
use quick_xml::tape::{self, Cell, Tape};

const N_INNER: usize = 2;

/// Items inside `<load-configuration-results>`.
#[derive(Clone, Copy, PartialEq, Eq)]
enum Inner {
    Ok,
    OkPair,
    ErrError,
    ErrWarning,
    /// `<load-error-count>k</load-error-count>`, k in 0..=3
    Count(u8),
    Comment,
    Other,
}

fn any_inner() -> Inner {
    let c: u8 = kani::any();
    kani::assume(c < 10);
    // quick tier: <ok/>, rpc-error (error / warning), load-error-count 1 (see support.rs)
    #[cfg(not(feature = "verif_deep"))]
    kani::assume(c == 0 || c == 2 || c == 3 || c == 5);
    match c {
        0 => Inner::Ok,
        1 => Inner::OkPair,
        2 => Inner::ErrError,
        3 => Inner::ErrWarning,
        4 => Inner::Count(0),
        5 => Inner::Count(1),
        6 => Inner::Count(2),
        7 => Inner::Count(3),
        8 => Inner::Comment,
        _ => Inner::Other,
    }
}

const RESULTS_START: Cell = Cell::start(BASE, n::LOAD_RESULTS);
const RESULTS_END: Cell = Cell::end(BASE, n::LOAD_RESULTS);
const COUNT_START: Cell = Cell::start(BASE, n::LOAD_ERROR_COUNT);
const COUNT_END: Cell = Cell::end(BASE, n::LOAD_ERROR_COUNT);

fn inner_window(i: Option<Inner>) -> [Cell; WINDOW] {
    const X: Cell = Cell::NONE;
    match i {
        None => [Cell::nop(WINDOW as u8), X, X],
        Some(Inner::Ok) => [cells::OK.with_skip(2), X, X],
        Some(Inner::OkPair) => [cells::OK_START, cells::OK_END.with_skip(1), X],
        Some(Inner::ErrError) => [ERR_ERROR_START, ERR_END.with_skip(1), X],
        Some(Inner::ErrWarning) => [ERR_WARNING_START, ERR_END.with_skip(1), X],
        Some(Inner::Count(k)) => [COUNT_START, Cell::text(t::N0 + k), COUNT_END],
        Some(Inner::Comment) => [cells::COMMENT.with_skip(2), X, X],
        Some(Inner::Other) => [cells::OTHER.with_skip(2), X, X],
    }
}

fn push_inner(t: &mut Tape, i: Inner) {
    match i {
        Inner::Ok => t.push(cells::OK),
        Inner::OkPair => {
            t.push(cells::OK_START);
            t.push(cells::OK_END);
        }
        Inner::ErrError => {
            t.push(ERR_ERROR_START);
            t.push(ERR_END);
        }
        Inner::ErrWarning => {
            t.push(ERR_WARNING_START);
            t.push(ERR_END);
        }
        Inner::Count(k) => {
            t.push(COUNT_START);
            t.push(Cell::text(t::N0 + k));
            t.push(COUNT_END);
        }
        Inner::Comment => t.push(cells::COMMENT),
        Inner::Other => t.push(cells::OTHER),
    }
}

/// First inner item of a split harness: `NoResults` = reply without
/// `<load-configuration-results>`, `Empty` = empty results element, `First(k)` = the concrete
/// item k followed by nothing or by one symbolic item.
#[derive(Clone, Copy)]
enum Split {
    NoResults,
    Empty,
    /// first item and the family of the optional second one (`None` = any item)
    First(Inner, Option<InnerFam>),
}

/// Items sharing an element name (see `Fam` in replies.rs).
#[derive(Clone, Copy)]
enum InnerFam {
    Ok,
    Err,
    Count,
    OkPair,
    Comment,
    Other,
}

fn member(f: InnerFam) -> Inner {
    match f {
        InnerFam::Ok => Inner::Ok,
        InnerFam::Err => {
            if kani::any() {
                Inner::ErrError
            } else {
                Inner::ErrWarning
            }
        }
        InnerFam::Count => {
            let k: u8 = kani::any();
            kani::assume(k <= 3);
            Inner::Count(k)
        }
        InnerFam::OkPair => Inner::OkPair,
        InnerFam::Comment => Inner::Comment,
        InnerFam::Other => Inner::Other,
    }
}

/// C08, `load_configuration::Reply`: `<load-configuration-results>` with up to 2 inner items,
/// split on the first one (each split is decided on its own; together they cover every
/// sequence of <= 2 inner items).
fn load_reply_body(split: Split) {
    use_reply_tables();
    let (with_results, items, n): (bool, [Inner; N_INNER], usize) = match split {
        Split::NoResults => (false, [Inner::Ok; N_INNER], 0),
        Split::Empty => (true, [Inner::Ok; N_INNER], 0),
        Split::First(k, fam) => {
            let more: bool = kani::any();
            let second = match fam {
                None => any_inner(),
                Some(f) => member(f),
            };
            (true, [k, second], if more { 2 } else { 1 })
        }
    };
    // fixed-width windows, unconditional pushes: tape length and cursor positions stay constants
    // for symex (see replies.rs::split_tape)
    let mut t = Tape::EMPTY;
    if with_results {
        t.push(RESULTS_START);
        if let Split::First(k, _) = split {
            push_window(&mut t, inner_window(Some(k)));
            push_window(&mut t, inner_window(if n == 2 { Some(items[1]) } else { None }));
        }
        t.push(RESULTS_END);
    }
    reply_close(&mut t);
    load_reply_check(with_results, &items, n, t);
    kani::cover!(!matches!(split, Split::First(..)) || n == 2, "the longest reply of this split reaches the checks");
}

fn load_reply_check(with_results: bool, items: &[Inner; N_INNER], n: usize, t: Tape) {
    tape::register(0, t);
    let mut reader = NsReader::from_str(tape::input_for(0));
    let _ = reader.trim_text(true);
    let start = BytesStart::from_id(n::RPC_REPLY);
    let res = Reply::read_xml(&mut reader, &start);
    // facts
    let mut has_error = false;
    let mut n_err = 0usize;
    let mut sev = [0u8; N_INNER];
    let mut has_ok = false;
    let mut i = 0;
    while i < N_INNER {
        if with_results && i < n {
            match items[i] {
                Inner::ErrError => {
                    has_error = true;
                    sev[n_err] = ve::SEV_ERROR;
                    n_err += 1;
                }
                Inner::ErrWarning => {
                    sev[n_err] = ve::SEV_WARNING;
                    n_err += 1;
                }
                Inner::Ok | Inner::OkPair => has_ok = true,
                _ => {}
            }
        }
        i += 1;
    }
    match &res {
        Ok(Reply::Ok) => {
            assert!(!has_error, "C08 load-configuration: a reply carrying rpc-error(error) was reported as success");
            assert!(has_ok, "C08 load-configuration: success reported without <ok/> inside <load-configuration-results>");
        }
        Ok(Reply::Errs(errs)) => {
            let mut ok = errs.len() == n_err;
            let mut k = 0;
            while k < N_INNER {
                if k < n_err {
                    ok &= ve::nth_severity(errs, k) == Some(sev[k]);
                }
                k += 1;
            }
            assert!(ok, "C08 load-configuration: reported errors are not exactly the reply's rpc-errors, in order");
        }
        Err(_) => {}
    }
    std::mem::forget(res);
}

// C08 load-configuration, element sequences enumerated, leaf values symbolic (see the comment
// on `for_each_sequence` in replies.rs).

#[derive(Clone, Copy, PartialEq, Eq)]
enum LK {
    Ok,
    Err,
    Count,
    OkPair,
    Comment,
    Other,
}

const LK_QUICK: [LK; 3] = [LK::Ok, LK::Err, LK::Count];
const LK_FULL: [LK; 6] = [LK::Ok, LK::Err, LK::Count, LK::OkPair, LK::Comment, LK::Other];

/// Push the inner element of kind `k`; `warning` / `count` are the symbolic leaf values (severity
/// of an rpc-error, value 0..3 of a load-error-count).  The number of cells depends on `k` only.
fn push_lk(t: &mut Tape, k: LK, warning: bool, count: u8) -> Inner {
    match k {
        LK::Err => {
            t.push(Cell::start(BASE, n::RPC_ERROR).with_attrs(warning as u8, 0));
            t.push(ERR_END);
            if warning {
                Inner::ErrWarning
            } else {
                Inner::ErrError
            }
        }
        LK::Count => {
            t.push(COUNT_START);
            t.push(Cell::text(t::N0 + count));
            t.push(COUNT_END);
            Inner::Count(count)
        }
        LK::Ok => {
            push_inner(t, Inner::Ok);
            Inner::Ok
        }
        LK::OkPair => {
            push_inner(t, Inner::OkPair);
            Inner::OkPair
        }
        LK::Comment => {
            push_inner(t, Inner::Comment);
            Inner::Comment
        }
        LK::Other => {
            push_inner(t, Inner::Other);
            Inner::Other
        }
    }
}

fn any_count() -> u8 {
    let c: u8 = kani::any();
    kani::assume(c <= 3);
    c
}

fn load_sequences<const N: usize>(kinds: &[LK; N]) {
    use_reply_tables();
    // no <load-configuration-results> at all, and an empty one
    let mut t = Tape::EMPTY;
    reply_close(&mut t);
    load_reply_check(false, &[Inner::Ok; N_INNER], 0, t);
    let mut t = Tape::EMPTY;
    t.push(RESULTS_START);
    t.push(RESULTS_END);
    reply_close(&mut t);
    load_reply_check(true, &[Inner::Ok; N_INNER], 0, t);
    let mut i = 0;
    while i < N {
        let mut t1 = Tape::EMPTY;
        t1.push(RESULTS_START);
        let a = push_lk(&mut t1, kinds[i], kani::any(), any_count());
        t1.push(RESULTS_END);
        reply_close(&mut t1);
        load_reply_check(true, &[a, Inner::Ok], 1, t1);
        let mut j = 0;
        while j < N {
            let mut t2 = Tape::EMPTY;
            t2.push(RESULTS_START);
            let a = push_lk(&mut t2, kinds[i], kani::any(), any_count());
            let b = push_lk(&mut t2, kinds[j], kani::any(), any_count());
            t2.push(RESULTS_END);
            reply_close(&mut t2);
            load_reply_check(true, &[a, b], 2, t2);
            j += 1;
        }
        i += 1;
    }
    kani::cover!(true, "all sequences walked");
}

#[kani::proof]
#[kani::unwind(12)]
#[kani::stub(<crate::message::rpc::Error as crate::message::ReadXml>::read_xml, crate::message::rpc::error::verif_error::stub_read_xml)]
#[kani::stub(crate::message::rpc::Errors::new, crate::message::rpc::error::verif_error::stub_errors_new)]
#[kani::stub(crate::message::rpc::Errors::push, crate::message::rpc::error::verif_error::stub_errors_push)]
fn c08_load_reply_sequences() {
    load_sequences(&LK_QUICK)
}

#[kani::proof]
#[kani::unwind(12)]
#[kani::stub(<crate::message::rpc::Error as crate::message::ReadXml>::read_xml, crate::message::rpc::error::verif_error::stub_read_xml)]
#[kani::stub(crate::message::rpc::Errors::new, crate::message::rpc::error::verif_error::stub_errors_new)]
#[kani::stub(crate::message::rpc::Errors::push, crate::message::rpc::error::verif_error::stub_errors_push)]
fn c08_load_reply_sequences_full() {
    load_sequences(&LK_FULL)
}

macro_rules! load_split_harnesses {
    ($( $name:ident => $split:expr ),* $(,)?) => {
        $(
            #[kani::proof]
            #[kani::unwind(12)]
            #[kani::stub(<crate::message::rpc::Error as crate::message::ReadXml>::read_xml, crate::message::rpc::error::verif_error::stub_read_xml)]
            #[kani::stub(crate::message::rpc::Errors::new, crate::message::rpc::error::verif_error::stub_errors_new)]
            #[kani::stub(crate::message::rpc::Errors::push, crate::message::rpc::error::verif_error::stub_errors_push)]
            fn $name() {
                load_reply_body($split)
            }
        )*
    };
}

load_split_harnesses!(
    c08_load_reply_no_results => Split::NoResults,
    c08_load_reply_empty_results => Split::Empty,
    c08_load_reply_ok_then_ok => Split::First(Inner::Ok, Some(InnerFam::Ok)),
    c08_load_reply_ok_then_err => Split::First(Inner::Ok, Some(InnerFam::Err)),
    c08_load_reply_ok_then_count => Split::First(Inner::Ok, Some(InnerFam::Count)),
    c08_load_reply_ok_then_ok_pair => Split::First(Inner::Ok, Some(InnerFam::OkPair)),
    c08_load_reply_ok_then_comment => Split::First(Inner::Ok, Some(InnerFam::Comment)),
    c08_load_reply_ok_then_other => Split::First(Inner::Ok, Some(InnerFam::Other)),
    c08_load_reply_err_error_then_ok => Split::First(Inner::ErrError, Some(InnerFam::Ok)),
    c08_load_reply_err_error_then_err => Split::First(Inner::ErrError, Some(InnerFam::Err)),
    c08_load_reply_err_error_then_count => Split::First(Inner::ErrError, Some(InnerFam::Count)),
    c08_load_reply_err_error_then_ok_pair => Split::First(Inner::ErrError, Some(InnerFam::OkPair)),
    c08_load_reply_err_error_then_comment => Split::First(Inner::ErrError, Some(InnerFam::Comment)),
    c08_load_reply_err_error_then_other => Split::First(Inner::ErrError, Some(InnerFam::Other)),
    c08_load_reply_err_warning_then_ok => Split::First(Inner::ErrWarning, Some(InnerFam::Ok)),
    c08_load_reply_err_warning_then_err => Split::First(Inner::ErrWarning, Some(InnerFam::Err)),
    c08_load_reply_err_warning_then_count => Split::First(Inner::ErrWarning, Some(InnerFam::Count)),
    c08_load_reply_err_warning_then_ok_pair => Split::First(Inner::ErrWarning, Some(InnerFam::OkPair)),
    c08_load_reply_err_warning_then_comment => Split::First(Inner::ErrWarning, Some(InnerFam::Comment)),
    c08_load_reply_err_warning_then_other => Split::First(Inner::ErrWarning, Some(InnerFam::Other)),
    c08_load_reply_count0_then_ok => Split::First(Inner::Count(0), Some(InnerFam::Ok)),
    c08_load_reply_count0_then_err => Split::First(Inner::Count(0), Some(InnerFam::Err)),
    c08_load_reply_count0_then_count => Split::First(Inner::Count(0), Some(InnerFam::Count)),
    c08_load_reply_count0_then_ok_pair => Split::First(Inner::Count(0), Some(InnerFam::OkPair)),
    c08_load_reply_count0_then_comment => Split::First(Inner::Count(0), Some(InnerFam::Comment)),
    c08_load_reply_count0_then_other => Split::First(Inner::Count(0), Some(InnerFam::Other)),
    c08_load_reply_count1_then_ok => Split::First(Inner::Count(1), Some(InnerFam::Ok)),
    c08_load_reply_count1_then_err => Split::First(Inner::Count(1), Some(InnerFam::Err)),
    c08_load_reply_count1_then_count => Split::First(Inner::Count(1), Some(InnerFam::Count)),
    c08_load_reply_count1_then_ok_pair => Split::First(Inner::Count(1), Some(InnerFam::OkPair)),
    c08_load_reply_count1_then_comment => Split::First(Inner::Count(1), Some(InnerFam::Comment)),
    c08_load_reply_count1_then_other => Split::First(Inner::Count(1), Some(InnerFam::Other)),
    c08_load_reply_count2_then_ok => Split::First(Inner::Count(2), Some(InnerFam::Ok)),
    c08_load_reply_count2_then_err => Split::First(Inner::Count(2), Some(InnerFam::Err)),
    c08_load_reply_count2_then_count => Split::First(Inner::Count(2), Some(InnerFam::Count)),
    c08_load_reply_count2_then_ok_pair => Split::First(Inner::Count(2), Some(InnerFam::OkPair)),
    c08_load_reply_count2_then_comment => Split::First(Inner::Count(2), Some(InnerFam::Comment)),
    c08_load_reply_count2_then_other => Split::First(Inner::Count(2), Some(InnerFam::Other)),
    c08_load_reply_ok_pair_then_ok => Split::First(Inner::OkPair, Some(InnerFam::Ok)),
    c08_load_reply_ok_pair_then_err => Split::First(Inner::OkPair, Some(InnerFam::Err)),
    c08_load_reply_ok_pair_then_count => Split::First(Inner::OkPair, Some(InnerFam::Count)),
    c08_load_reply_ok_pair_then_ok_pair => Split::First(Inner::OkPair, Some(InnerFam::OkPair)),
    c08_load_reply_ok_pair_then_comment => Split::First(Inner::OkPair, Some(InnerFam::Comment)),
    c08_load_reply_ok_pair_then_other => Split::First(Inner::OkPair, Some(InnerFam::Other)),
    c08_load_reply_comment_then_ok => Split::First(Inner::Comment, Some(InnerFam::Ok)),
    c08_load_reply_comment_then_err => Split::First(Inner::Comment, Some(InnerFam::Err)),
    c08_load_reply_comment_then_count => Split::First(Inner::Comment, Some(InnerFam::Count)),
    c08_load_reply_comment_then_ok_pair => Split::First(Inner::Comment, Some(InnerFam::OkPair)),
    c08_load_reply_comment_then_comment => Split::First(Inner::Comment, Some(InnerFam::Comment)),
    c08_load_reply_comment_then_other => Split::First(Inner::Comment, Some(InnerFam::Other)),
    c08_load_reply_first_other => Split::First(Inner::Other, None),
);

/// C08, `load_configuration::Reply`, the sequence the defect repaired by 808e00a lived in:
/// `<rpc-error>` of symbolic severity followed by `<ok/>`.  Everything but the severity is
/// concrete, so this fits where the two-item splits above do not.
#[kani::proof]
#[kani::unwind(12)]
#[kani::stub(<crate::message::rpc::Error as crate::message::ReadXml>::read_xml, crate::message::rpc::error::verif_error::stub_read_xml)]
#[kani::stub(crate::message::rpc::Errors::new, crate::message::rpc::error::verif_error::stub_errors_new)]
#[kani::stub(crate::message::rpc::Errors::push, crate::message::rpc::error::verif_error::stub_errors_push)]
fn c08_load_reply_error_then_ok() {
    use_reply_tables();
    let warning: bool = kani::any();
    let mut t = Tape::EMPTY;
    t.push(RESULTS_START);
    t.push(Cell::start(BASE, n::RPC_ERROR).with_attrs(warning as u8, 0));
    t.push(ERR_END);
    t.push(cells::OK);
    t.push(RESULTS_END);
    reply_close(&mut t);
    tape::register(0, t);
    let mut reader = NsReader::from_str(tape::input_for(0));
    let _ = reader.trim_text(true);
    let start = BytesStart::from_id(n::RPC_REPLY);
    let res = Reply::read_xml(&mut reader, &start);
    match &res {
        Ok(Reply::Ok) => assert!(warning, "C08 load-configuration: a reply carrying rpc-error(error) was reported as success"),
        Ok(Reply::Errs(errs)) => {
            assert!(errs.len() == 1 && ve::nth_severity(errs, 0) == Some(if warning { ve::SEV_WARNING } else { ve::SEV_ERROR }),
                "C08 load-configuration: reported errors are not exactly the reply's rpc-errors");
        }
        Err(_) => {}
    }
    kani::cover!(matches!(res, Ok(Reply::Ok)), "a warning followed by <ok/> is a success");
    std::mem::forget(res);
}

// =================================================================================================
// C10: text / JSON configuration payloads.

use crate::message::WriteXml;
use quick_xml::writer::{self as wlog, WKind};

fn any_payload() -> String {
    // two bytes over an alphabet containing the XML metacharacters and a delimiter character
    let mut s = String::with_capacity(2);
    let mut i = 0;
    while i < 2 {
        let c: u8 = kani::any();
        s.push(match c % 5 {
            0 => '<',
            1 => '&',
            2 => '"',
            3 => ']',
            _ => 'a',
        });
        i += 1;
    }
    s
}

/// C10: a text or JSON configuration payload handed to `<load-configuration>` is caller
/// *text*, not an XML fragment: it must go through the escaping text path (so that the server
/// recovers it unchanged and the message stays well-formed), not be written raw.
#[kani::proof]
#[kani::unwind(50)]
fn c10_load_configuration_text_payload_is_escaped() {
    let payload = any_payload();
    let json: bool = kani::any();
    wlog::reset_log();
    let mut w = quick_xml::Writer::new(Vec::new());
    let r = if json {
        LoadConfiguration { source: Config::new(payload.as_str(), Json, Merge) }.write_xml(&mut w)
    } else {
        LoadConfiguration { source: Config::new(payload.as_str(), Text, Merge) }.write_xml(&mut w)
    };
    assert!(r.is_ok(), "C10: serialisation failed");
    let log = wlog::log();
    assert!(!log.overflow);
    let mut raw = false;
    let mut carried = false;
    let mut i = 0;
    while i < wlog::WLOG_CAP {
        if i < log.n {
            let e = &log.entries[i];
            match e.kind {
                WKind::RawAccess => raw = true,
                WKind::Text => {
                    if e.escaped && e.text_len == 2 && e.text.as_slice() == payload.as_bytes() {
                        carried = true;
                    }
                }
                _ => {}
            }
        }
        i += 1;
    }
    assert!(!raw, "C10 load-configuration: text/JSON payload written through the raw (unescaped) path");
    assert!(carried, "C10 load-configuration: payload does not reach the message as escaped text with its exact value");
    kani::cover!(json, "json payload");
    kani::cover!(!json, "text payload");
    std::mem::forget((w, payload));
}

//! Verification model of `russh-keys`: type shell.
pub mod key {
    #[derive(Debug, Clone, PartialEq, Eq)]
    pub struct PublicKey(());
    impl PublicKey {
        pub fn model() -> Self {
            Self(())
        }
    }
}

#!/bin/bash
# Build what the checks need from files on disk only (offline).
set -e
cd "$(dirname "$0")"
export CARGO_NET_OFFLINE=true
mkdir -p work evidence
# model crates: native self-tests (differential tests against the real std collections)
(cd models/vcollections && cargo test --offline -q 2>&1 | tail -3)
# warm the Kani build of the verification copy of bgpfu-netconf (dependencies are compiled once per target dir)
python3 vbuild/gen.py --out work/vb/setup --crates netconf >/dev/null
(cd work/vb/setup && cargo kani -p bgpfu-netconf --only-codegen --harness cal_nothing --target-dir /verif/work/target/setup >/dev/null 2>&1 || true)
python3 vbuild/mkmanifest.py >/dev/null
echo "setup done"

#!/usr/bin/env python3
"""Regenerate the verification build of bgpfu-rs from /repo's current working tree.

For each crate it
  1. copies /repo/<crate>/src to <out>/<crate>/src (fresh copy on every run),
  2. applies ONE mechanical rewrite: the path prefix `std::collections` -> `::vcollections`
     (Kani mode only; logged),
  3. appends `#[cfg(kani)] #[path = "/verif/harness/..."] mod verif_x;` lines to the copies of
     the modules whose private items a harness needs (add-only, verification time only),
  4. writes a Cargo.toml whose dependency table names the model crates.

`--native` produces the replay/differential build instead: real third-party crates, no
rewrite, the injected modules are `#[cfg(test)]` ones under /verif/replay.
"""
import argparse
import json
import os
import re
import shutil
import sys

VERIF = os.path.dirname(os.path.dirname(os.path.abspath(__file__)))
MODELS = os.path.join(VERIF, "models")

# module file (relative to the crate's src) -> list of (mod name, harness file relative to /verif)
INJECT_KANI = {
    "netconf": {
        "lib.rs": [("verif_support", "harness/netconf/support.rs")],
        "message/rpc/mod.rs": [("verif_replies", "harness/netconf/replies.rs")],
        "message/rpc/error.rs": [("verif_error", "harness/netconf/error.rs")],
        "message/rpc/operation/junos/load_configuration.rs": [("verif_load", "harness/netconf/load.rs")],
        "message/rpc/operation/mod.rs": [("verif_ops", "harness/netconf/ops.rs")],
        "message/hello.rs": [("verif_hello", "harness/netconf/hello.rs")],
        "session.rs": [("verif_session", "harness/netconf/session.rs")],
        "capabilities.rs": [("verif_caps", "harness/netconf/caps.rs")],
        "transport/tls.rs": [("verif_tls", "harness/netconf/tls.rs")],
        "transport/junos_local.rs": [("verif_junos_local", "harness/netconf/junos_local.rs")],
        "transport/ssh.rs": [("verif_ssh", "harness/netconf/ssh.rs")],
    },
    "junos-agent": {
        "lib.rs": [("verif_support", "harness/agent/support.rs")],
        "policies/mod.rs": [("verif_policies", "harness/agent/policies.rs")],
        "policies/fetch.rs": [("verif_fetch", "harness/agent/fetch.rs")],
        "task.rs": [("verif_task", "harness/agent/task.rs"), ("verif_task_slice", "harness/agent/task_slice.rs")],
        "cli.rs": [("verif_cli", "harness/agent/cli.rs")],
        "netconf/mod.rs": [("verif_client", "harness/agent/client.rs")],
    },
}

INJECT_NATIVE = {
    "netconf": {
        "lib.rs": [("verif_replay", "replay/netconf.rs")],
        "session.rs": [("verif_replay_session", "replay/netconf_session.rs")],
        "transport/tls.rs": [("verif_replay_tls", "replay/netconf_tls.rs")],
        "transport/ssh.rs": [("verif_replay_ssh", "replay/netconf_ssh.rs")],
        "transport/junos_local.rs": [("verif_replay_junos_local", "replay/netconf_junos_local.rs")],
    },
    "junos-agent": {
        "policies/mod.rs": [("verif_replay", "replay/agent.rs")],
        "task.rs": [("verif_replay_task", "replay/agent_task.rs")],
    },
}

NETCONF_TOML_KANI = """[package]
name = "bgpfu-netconf"
version = "0.1.0"
edition = "2021"

[lib]
name = "netconf"
path = "src/lib.rs"

[features]
default = ["ssh", "tls", "junos"]
ssh = []
tls = []
junos = []
# deeper bounds in the harnesses (thorough tier)
verif_deep = []

[dependencies]
async-trait = "0.1"
bytes = "1"
iri-string = "0.7"
thiserror = "1"
uuid = {{ version = "1", features = ["v4", "fast-rng"] }}
chrono = "0.4"
paste = "1"
rustls-pki-types = {{ version = "1", features = ["std"] }}
memchr = {{ path = "{models}/memchr" }}
quick-xml = {{ path = "{models}/quick-xml" }}
tokio = {{ path = "{models}/tokio" }}
tracing = {{ package = "verif-tracing", path = "{models}/tracing" }}
russh = {{ path = "{models}/russh" }}
russh-keys = {{ path = "{models}/russh-keys" }}
tokio-rustls = {{ path = "{models}/tokio-rustls" }}
vcollections = {{ path = "{models}/vcollections" }}

[lints.rust]
unexpected_cfgs = {{ level = "allow", check-cfg = ['cfg(kani)'] }}
"""

AGENT_TOML_KANI = """[package]
name = "bgpfu-junos-agent"
version = "0.1.0"
edition = "2021"
autobins = false

[lib]
name = "bgpfu_junos_agent"
path = "src/lib.rs"

[features]
verif_deep = ["bgpfu-netconf/verif_deep"]

[dependencies]
anyhow = "1"
async-trait = "0.1"
bytes = "1"
chrono = "0.4"
clap = {{ version = "4", features = ["derive"] }}
clap-verbosity-flag = "2"
futures = {{ version = "0.3.30", default-features = false }}
generic-ip = "0.1.1"
rolling-file = "0.2"
rustls-pemfile = "2"
rustls-pki-types = {{ version = "1", features = ["std"] }}
tracing-appender = "0.2.3"
tracing-log = "0.2"
ubyte = "0.10.4"
tracing-subscriber = {{ version = "0.3", features = ["env-filter"] }}
bgpfu-netconf = {{ path = "../netconf" }}
bgpfu = {{ package = "bgpfu-lite", path = "{models}/bgpfu-lite" }}
rpsl = {{ package = "rpsl-lite", path = "{models}/rpsl-lite" }}
quick-xml = {{ path = "{models}/quick-xml" }}
tokio = {{ path = "{models}/tokio" }}
tracing = {{ package = "verif-tracing", path = "{models}/tracing" }}
vcollections = {{ path = "{models}/vcollections", features = ["cap4"] }}

[lints.rust]
unexpected_cfgs = {{ level = "allow", check-cfg = ['cfg(kani)'] }}
"""

NETCONF_TOML_NATIVE = """[package]
name = "bgpfu-netconf"
version = "0.1.0"
edition = "2021"

[lib]
name = "netconf"
path = "src/lib.rs"

[features]
default = ["ssh", "tls", "junos"]
ssh = []
tls = []
junos = []

[dependencies]
async-trait = "0.1"
bytes = "1"
iri-string = "0.7"
memchr = "2"
quick-xml = "0.31"
thiserror = "1"
tokio = {{ version = "1", default-features = false, features = ["sync", "io-util", "macros", "net", "process", "rt", "time"] }}
tracing = {{ version = "0.1", features = ["log"] }}
uuid = {{ version = "1", features = ["v4", "fast-rng"] }}
chrono = "0.4"
paste = "1"
russh = "0.39"
russh-keys = "0.38"
rustls-pki-types = "1"
tokio-rustls = "0.25"

[dev-dependencies]
anyhow = "1"
clap = {{ version = "4", features = ["derive"] }}
clap-verbosity-flag = "2"
rustls-pemfile = "2"
tracing-log = "0.2"
tracing-subscriber = "0.3"
version-sync = "0.9"
"""

AGENT_TOML_NATIVE = """[package]
name = "bgpfu-junos-agent"
version = "0.1.0"
edition = "2021"
autobins = false

[lib]
name = "bgpfu_junos_agent"
path = "src/lib.rs"

[dependencies]
anyhow = "1"
bgpfu-lib = {{ path = "{repo}/lib" }}
chrono = "0.4"
clap = {{ version = "4", features = ["derive"] }}
clap-verbosity-flag = "2"
futures = {{ version = "0.3.30", default-features = false }}
generic-ip = "0.1.1"
quick-xml = "0.31"
rolling-file = "0.2"
rpsl = "0.1"
rustls-pemfile = "2"
rustls-pki-types = "1"
tracing = {{ version = "0.1", features = ["log"] }}
tracing-appender = "0.2.3"
tracing-log = "0.2"
ubyte = "0.10.4"
tracing-subscriber = {{ version = "0.3", features = ["env-filter"] }}
bgpfu-netconf = {{ path = "../netconf" }}
tokio = {{ version = "1", default-features = false, features = ["fs", "signal", "time", "rt-multi-thread", "macros", "test-util"] }}

[dev-dependencies]
serde_json = "1"
"""

WORKSPACE_TOML = """[workspace]
members = [{members}]
resolver = "2"

[profile.dev]
debug = 0
"""

REWRITE = re.compile(r"\bstd::collections\b")
USE_STD_GROUP = re.compile(r"^(\s*)use std::\{", re.M)


def split_top(s):
    """split `s` at top-level commas (brace aware)"""
    items, depth, cur = [], 0, ""
    for ch in s:
        if ch == "{":
            depth += 1
        elif ch == "}":
            depth -= 1
        if ch == "," and depth == 0:
            items.append(cur)
            cur = ""
        else:
            cur += ch
    if cur.strip():
        items.append(cur)
    return items


def rewrite_text(text, rel, log):
    """`std::collections` -> `::vcollections`, in the flat form and inside `use std::{..}` groups."""
    # 1. grouped imports: pull `collections::...` items out of `use std::{...};`
    out, pos = "", 0
    while True:
        m = USE_STD_GROUP.search(text, pos)
        if not m:
            out += text[pos:]
            break
        start = m.end()  # just after '{'
        depth, i = 1, start
        while depth:
            depth += {"{": 1, "}": -1}.get(text[i], 0)
            i += 1
        end = i  # just after matching '}'
        semi = text.index(";", end) + 1
        items = split_top(text[start : end - 1])
        coll = [it for it in items if it.strip().startswith("collections::") or it.strip() == "collections"]
        if not coll:
            out += text[pos:semi]
            pos = semi
            continue
        rest = [it for it in items if it not in coll]
        indent = m.group(1)
        before = " ".join(text[m.start():semi].split())
        new = ""
        if any(r.strip() for r in rest):
            new += f"{indent}use std::{{" + ",".join(rest) + "};"
        for c in coll:
            new += f"\n{indent}use ::v{c.strip()};"
        line = text.count("\n", 0, m.start()) + 1
        log.append({"file": rel, "line": line, "before": before, "after": " ".join(new.split())})
        out += text[pos : m.start()] + new.lstrip("\n") if not new.startswith(indent) else text[pos : m.start()] + new
        pos = semi
    text = out
    # 2. flat paths
    lines = text.split("\n")
    for i, line in enumerate(lines):
        if REWRITE.search(line):
            new = REWRITE.sub("::vcollections", line)
            log.append({"file": rel, "line": i + 1, "before": line.strip(), "after": new.strip()})
            lines[i] = new
    return "\n".join(lines)


def copy_src(repo, crate, out, kani, log):
    src = os.path.join(repo, crate, "src")
    dst = os.path.join(out, crate, "src")
    if os.path.exists(dst):
        shutil.rmtree(dst)
    shutil.copytree(src, dst)
    if not kani:
        return
    for root, _dirs, files in os.walk(dst):
        for f in files:
            if not f.endswith(".rs"):
                continue
            p = os.path.join(root, f)
            with open(p) as fh:
                text = fh.read()
            new = rewrite_text(text, os.path.relpath(p, dst), log)
            if new != text:
                with open(p, "w") as fh:
                    fh.write(new)


def snapshot_harness_dirs(out):
    """copy /verif/harness and /verif/replay into the build dir, so that a run is not disturbed
    by edits made while it is in progress (and `include!`s stay relative)"""
    for d in ("harness", "replay"):
        src = os.path.join(VERIF, d)
        dst = os.path.join(out, d)
        if os.path.exists(dst):
            shutil.rmtree(dst)
        if os.path.exists(src):
            shutil.copytree(src, dst)


def slice_c19(out, log):
    """C19: generate harness/agent/task_slice.rs (in the build dir) from the current task.rs"""
    import slice_task
    tpl = os.path.join(out, "harness", "agent", "task_slice.rs.in")
    src = os.path.join(out, "junos-agent", "src", "task.rs")
    dst = os.path.join(out, "harness", "agent", "task_slice.rs")
    try:
        with open(src) as fh, open(tpl) as th:
            text, parts = slice_task.generate(fh.read(), th.read())
        with open(dst, "w") as fh:
            fh.write(text)
        log.append({"file": "task.rs", "slice": parts})
    except Exception as e:  # shape not recognised: no slice module -> harnesses INCONCLUSIVE
        log.append({"file": "task.rs", "slice_error": str(e)})


def inject(out, crate, table, cfg, log):
    for rel, mods in table.get(crate, {}).items():
        p = os.path.join(out, crate, "src", rel)
        if not os.path.exists(p):
            # the module was moved/renamed by an edit: harnesses that need it cannot be attached
            log.append({"file": rel, "missing": True})
            continue
        extra = []
        for name, harness in mods:
            hp = os.path.join(os.path.abspath(out), harness)
            if not os.path.exists(hp):
                continue
            extra.append(f'\n#[cfg({cfg})]\n#[allow(warnings, clippy::all, clippy::pedantic, clippy::nursery)]\n#[path = "{hp}"]\npub(crate) mod {name};\n')
            log.append({"file": rel, "appended_mod": name, "harness": harness})
        if extra:
            with open(p, "a") as fh:
                fh.write("".join(extra))


def main():
    ap = argparse.ArgumentParser()
    ap.add_argument("--repo", default="/repo")
    ap.add_argument("--out", required=True)
    ap.add_argument("--native", action="store_true")
    ap.add_argument("--crates", default="netconf")
    args = ap.parse_args()
    kani = not args.native
    crates = args.crates.split(",")
    os.makedirs(args.out, exist_ok=True)
    rewrite_log, inject_log = [], []
    snapshot_harness_dirs(args.out)
    for crate in crates:
        os.makedirs(os.path.join(args.out, crate), exist_ok=True)
        copy_src(args.repo, crate, args.out, kani, rewrite_log)
        # in the agent build the netconf crate is a plain dependency: its harness modules are
        # left out (they are sized for the 14-slot vcollections of the netconf build)
        if kani and crate == "junos-agent":
            slice_c19(args.out, inject_log)
        if not (kani and crate == "netconf" and "junos-agent" in crates):
            inject(args.out, crate, INJECT_KANI if kani else INJECT_NATIVE, "kani" if kani else "test", inject_log)
        if crate == "netconf":
            toml = NETCONF_TOML_KANI if kani else NETCONF_TOML_NATIVE
        elif crate == "junos-agent":
            toml = AGENT_TOML_KANI if kani else AGENT_TOML_NATIVE
        else:
            raise SystemExit(f"unknown crate {crate}")
        with open(os.path.join(args.out, crate, "Cargo.toml"), "w") as fh:
            fh.write(toml.format(models=MODELS, repo=args.repo))
    with open(os.path.join(args.out, "Cargo.toml"), "w") as fh:
        fh.write(WORKSPACE_TOML.format(members=", ".join(f'"{c}"' for c in crates)))
    lock = os.path.join(args.out, "Cargo.lock")
    if not os.path.exists(lock):
        shutil.copy(os.path.join(args.repo, "Cargo.lock"), lock)
    with open(os.path.join(args.out, "gen-log.json"), "w") as fh:
        json.dump({"rewrites": rewrite_log, "injections": inject_log, "mode": "kani" if kani else "native"}, fh, indent=1)
    print(f"generated {args.out} ({'kani' if kani else 'native'}): {len(rewrite_log)} rewrites, {len(inject_log)} injections")


if __name__ == "__main__":
    sys.exit(main())

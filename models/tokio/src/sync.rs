//! `tokio::sync::{Mutex, mpsc}` models.
use std::cell::{Cell, UnsafeCell};
use std::fmt;
use std::future::Future;
use std::ops::{Deref, DerefMut};
use std::pin::Pin;
use std::task::{Context, Poll};

use crate::model::Yield;

pub struct Mutex<T: ?Sized> {
    locked: Cell<bool>,
    value: UnsafeCell<T>,
}

unsafe impl<T: ?Sized + Send> Send for Mutex<T> {}
unsafe impl<T: ?Sized + Send> Sync for Mutex<T> {}

impl<T> Mutex<T> {
    pub fn new(t: T) -> Self {
        Self { locked: Cell::new(false), value: UnsafeCell::new(t) }
    }
    pub fn into_inner(self) -> T {
        self.value.into_inner()
    }
}

impl<T: ?Sized> Mutex<T> {
    pub fn lock(&self) -> Lock<'_, T> {
        Lock { m: self, y: Yield::new() }
    }
    pub fn try_lock(&self) -> Result<MutexGuard<'_, T>, TryLockError> {
        if self.locked.get() {
            Err(TryLockError(()))
        } else {
            self.locked.set(true);
            Ok(MutexGuard { m: self })
        }
    }
    /// Model hook: is the mutex currently held?
    pub fn is_locked(&self) -> bool {
        self.locked.get()
    }
    pub fn get_mut(&mut self) -> &mut T {
        self.value.get_mut()
    }
}

impl<T: Default> Default for Mutex<T> {
    fn default() -> Self {
        Self::new(T::default())
    }
}

impl<T: ?Sized> fmt::Debug for Mutex<T> {
    fn fmt(&self, f: &mut fmt::Formatter<'_>) -> fmt::Result {
        f.write_str("Mutex { .. }")
    }
}

#[derive(Debug)]
pub struct TryLockError(());

pub struct Lock<'a, T: ?Sized> {
    m: &'a Mutex<T>,
    y: Yield,
}

unsafe impl<T: ?Sized + Send> Send for Lock<'_, T> {}

impl<'a, T: ?Sized> Future for Lock<'a, T> {
    type Output = MutexGuard<'a, T>;
    fn poll(mut self: Pin<&mut Self>, _cx: &mut Context<'_>) -> Poll<Self::Output> {
        if self.y.should_yield() {
            return Poll::Pending;
        }
        if self.m.locked.get() {
            Poll::Pending
        } else {
            self.m.locked.set(true);
            Poll::Ready(MutexGuard { m: self.m })
        }
    }
}

pub struct MutexGuard<'a, T: ?Sized> {
    m: &'a Mutex<T>,
}

unsafe impl<T: ?Sized + Send> Send for MutexGuard<'_, T> {}
unsafe impl<T: ?Sized + Send + Sync> Sync for MutexGuard<'_, T> {}

impl<T: ?Sized> Deref for MutexGuard<'_, T> {
    type Target = T;
    fn deref(&self) -> &T {
        unsafe { &*self.m.value.get() }
    }
}

impl<T: ?Sized> DerefMut for MutexGuard<'_, T> {
    fn deref_mut(&mut self) -> &mut T {
        unsafe { &mut *self.m.value.get() }
    }
}

impl<T: ?Sized> Drop for MutexGuard<'_, T> {
    fn drop(&mut self) {
        self.m.locked.set(false);
    }
}

impl<T: ?Sized + fmt::Debug> fmt::Debug for MutexGuard<'_, T> {
    fn fmt(&self, f: &mut fmt::Formatter<'_>) -> fmt::Result {
        fmt::Debug::fmt(&**self, f)
    }
}

pub mod mpsc {
    //! Bounded channel: a shared `VecDeque`, sender count and receiver-alive flag.
    use std::cell::{Cell, RefCell};
    use std::collections::VecDeque;
    use std::fmt;
    use std::future::Future;
    use std::pin::Pin;
    use std::sync::Arc;
    use std::task::{Context, Poll};

    use crate::model::Yield;

    struct Chan<T> {
        q: RefCell<VecDeque<T>>,
        cap: usize,
        senders: Cell<usize>,
        rx_alive: Cell<bool>,
    }

    unsafe impl<T: Send> Send for Chan<T> {}
    unsafe impl<T: Send> Sync for Chan<T> {}

    pub fn channel<T>(buffer: usize) -> (Sender<T>, Receiver<T>) {
        let c = Arc::new(Chan { q: RefCell::new(VecDeque::new()), cap: buffer, senders: Cell::new(1), rx_alive: Cell::new(true) });
        (Sender { c: c.clone() }, Receiver { c })
    }

    pub struct Sender<T> {
        c: Arc<Chan<T>>,
    }

    impl<T> Clone for Sender<T> {
        fn clone(&self) -> Self {
            self.c.senders.set(self.c.senders.get() + 1);
            Self { c: self.c.clone() }
        }
    }

    impl<T> Drop for Sender<T> {
        fn drop(&mut self) {
            self.c.senders.set(self.c.senders.get() - 1);
        }
    }

    impl<T> fmt::Debug for Sender<T> {
        fn fmt(&self, f: &mut fmt::Formatter<'_>) -> fmt::Result {
            f.write_str("Sender { .. }")
        }
    }

    impl<T> Sender<T> {
        pub fn send(&self, value: T) -> SendFut<'_, T> {
            SendFut { s: self, v: Some(value), y: Yield::new() }
        }
        pub fn is_closed(&self) -> bool {
            !self.c.rx_alive.get()
        }
        /// Model hook: number of queued items.
        pub fn queued(&self) -> usize {
            self.c.q.borrow().len()
        }
    }

    pub struct SendFut<'a, T> {
        s: &'a Sender<T>,
        v: Option<T>,
        y: Yield,
    }

    impl<T> Unpin for SendFut<'_, T> {}
    unsafe impl<T: Send> Send for SendFut<'_, T> {}

    impl<T> Future for SendFut<'_, T> {
        type Output = Result<(), error::SendError<T>>;
        fn poll(mut self: Pin<&mut Self>, _cx: &mut Context<'_>) -> Poll<Self::Output> {
            if self.y.should_yield() {
                return Poll::Pending;
            }
            let c = &self.s.c;
            if !c.rx_alive.get() {
                let v = self.v.take().expect("polled after completion");
                return Poll::Ready(Err(error::SendError(v)));
            }
            if c.q.borrow().len() >= c.cap {
                return Poll::Pending;
            }
            let v = self.v.take().expect("polled after completion");
            c.q.borrow_mut().push_back(v);
            Poll::Ready(Ok(()))
        }
    }

    pub struct Receiver<T> {
        c: Arc<Chan<T>>,
    }

    impl<T> Drop for Receiver<T> {
        fn drop(&mut self) {
            self.c.rx_alive.set(false);
        }
    }

    impl<T> fmt::Debug for Receiver<T> {
        fn fmt(&self, f: &mut fmt::Formatter<'_>) -> fmt::Result {
            f.write_str("Receiver { .. }")
        }
    }

    impl<T> Receiver<T> {
        pub fn recv(&mut self) -> Recv<'_, T> {
            Recv { r: self, y: Yield::new() }
        }
        pub fn close(&mut self) {
            self.c.rx_alive.set(false);
        }
        /// Model hook: number of queued items.
        pub fn queued(&self) -> usize {
            self.c.q.borrow().len()
        }
    }

    pub struct Recv<'a, T> {
        r: &'a mut Receiver<T>,
        y: Yield,
    }

    unsafe impl<T: Send> Send for Recv<'_, T> {}

    impl<T> Future for Recv<'_, T> {
        type Output = Option<T>;
        fn poll(mut self: Pin<&mut Self>, _cx: &mut Context<'_>) -> Poll<Self::Output> {
            if self.y.should_yield() {
                return Poll::Pending;
            }
            let c = &self.r.c;
            if let Some(v) = c.q.borrow_mut().pop_front() {
                return Poll::Ready(Some(v));
            }
            if c.senders.get() == 0 {
                Poll::Ready(None)
            } else {
                Poll::Pending
            }
        }
    }

    pub mod error {
        use std::fmt;

        #[derive(PartialEq, Eq, Clone, Copy)]
        pub struct SendError<T>(pub T);

        impl<T> fmt::Debug for SendError<T> {
            fn fmt(&self, f: &mut fmt::Formatter<'_>) -> fmt::Result {
                f.write_str("SendError { .. }")
            }
        }
        impl<T> fmt::Display for SendError<T> {
            fn fmt(&self, f: &mut fmt::Formatter<'_>) -> fmt::Result {
                f.write_str("channel closed")
            }
        }
        impl<T> std::error::Error for SendError<T> {}
    }
}

//! Child module of `message::rpc::error`: a summary stub for `rpc::Error::read_xml` and
//! accessors, used by the outer-reader harnesses (compositional checking: the real
//! `rpc::Error::read_xml` is verified on its own in `c08_rpc_error_reader`).
use super::*;

pub const SEV_ERROR: u8 = 0;
pub const SEV_WARNING: u8 = 1;

/// Summary of `<rpc::Error as ReadXml>::read_xml` for a well-formed `<rpc-error>` element:
/// consumes the element up to its end tag and returns an error value whose severity is the
/// one the tape declares for this element (cell tag).  No heap data, so the value is cheap to
/// move and drop.
pub fn stub_read_xml(reader: &mut NsReader<&[u8]>, start: &BytesStart<'_>) -> Result<Error, ReadError> {
    // Precondition, stated on the reader's own (constant) state: the event returned last is the
    // start tag of an <rpc-error> in the base namespace.  Symex cannot fold the caller's match
    // guard (the tag sits inside an enum payload), so it also walks into this stub on paths where
    // the element is something else; those paths are infeasible, the assertion is vacuous on
    // them and the early return ends them.  On a *feasible* path a violated precondition is a
    // defect of the caller and is reported.
    let last = reader.model_last_cell();
    let on_rpc_error = last.kind == quick_xml::tape::kind::START && last.name == n::RPC_ERROR && last.ns == BASE;
    assert!(on_rpc_error, "rpc::Error::read_xml called on an element that is not <rpc-error>");
    if !on_rpc_error {
        return Err(ReadError::NoMessageId);
    }
    let tag = start.model_tag();
    let _ = reader.read_to_end(start.to_end().name())?;
    Ok(Error {
        error_type: Type::Protocol,
        error_tag: Tag::OperationFailed,
        severity: if tag == SEV_WARNING { Severity::Warning } else { Severity::Error },
        app_tag: None,
        path: None,
        message: None,
        info: Info::new(),
    })
}

/// Stubs for the two one-line wrappers `Errors::new` / `Errors::push` (`Vec::new` /
/// `Vec::push`): a vector with room for 4 errors allocated up front and a push that never
/// reallocates (it *asserts* that the capacity suffices).  `Vec::push` on a vector of symbolic
/// length makes CBMC explore the reallocation path (symbolic-size memcpy) at every call.
/// (A typed static buffer instead of the heap block, with deallocation stubbed out, was tried
/// twice and changed nothing measurable.)
pub fn stub_errors_new() -> Errors {
    Errors { inner: Vec::with_capacity(4) }
}

pub fn stub_errors_push(this: &mut Errors, err: Error) {
    let len = this.inner.len();
    assert!(len < 4, "model bound exceeded: more than 4 rpc-errors in one reply");
    // one arm per concrete index: a write at a symbolic offset into the buffer is far more
    // expensive for CBMC than a guarded write at a constant one
    unsafe {
        let p = this.inner.as_mut_ptr();
        match len {
            0 => std::ptr::write(p, err),
            1 => std::ptr::write(p.add(1), err),
            2 => std::ptr::write(p.add(2), err),
            _ => std::ptr::write(p.add(3), err),
        }
        this.inner.set_len(len + 1);
    }
}

pub fn severity_code(e: &Error) -> u8 {
    match e.severity {
        Severity::Error => SEV_ERROR,
        Severity::Warning => SEV_WARNING,
    }
}

pub fn nth_severity(errs: &Errors, n: usize) -> Option<u8> {
    let mut i = 0;
    for e in errs.iter() {
        if i == n {
            return Some(severity_code(e));
        }
        i += 1;
    }
    None
}

// -------------------------------------------------------------------------------------------------
// The real `rpc::Error::read_xml`, on its own.

use crate::verif_support::*;
use quick_xml::tape::{self, Cell, Tape};

const TYPE_START: Cell = Cell::start(BASE, n::ERROR_TYPE);
const TYPE_END: Cell = Cell::end(BASE, n::ERROR_TYPE);
const TAG_START: Cell = Cell::start(BASE, n::ERROR_TAG);
const TAG_END: Cell = Cell::end(BASE, n::ERROR_TAG);
const SEV_START: Cell = Cell::start(BASE, n::ERROR_SEVERITY);
const SEV_END: Cell = Cell::end(BASE, n::ERROR_SEVERITY);

/// C08 (inner reader, justifies the summary stub): an `<rpc-error>` whose three mandatory
/// children appear in any order, each present or absent, the severity text being `error`,
/// `warning`, a whitespace-padded `error`, or junk.  `Ok` is returned iff all three are present
/// and recognised, the severity is the one in the text, and the reader stops right after
/// `</rpc-error>`.
#[kani::proof]
#[kani::unwind(8)]
fn c08_rpc_error_reader() {
    use_reply_tables();
    let order: u8 = kani::any();
    kani::assume(order < 6);
    let has: [bool; 3] = [kani::any(), kani::any(), kani::any()];
    let sev_text: u8 = kani::any();
    kani::assume(sev_text < 4);
    let sev_cell = match sev_text {
        0 => Cell::text(t::ERROR),
        1 => Cell::text(t::WARNING),
        2 => Cell::text(t::ERROR_PADDED),
        _ => Cell::text(t::X),
    };
    // the six orders of (type, tag, severity)
    let perm: [usize; 3] = match order {
        0 => [0, 1, 2],
        1 => [0, 2, 1],
        2 => [1, 0, 2],
        3 => [1, 2, 0],
        4 => [2, 0, 1],
        _ => [2, 1, 0],
    };
    let mut tp = Tape::EMPTY;
    let mut k = 0;
    while k < 3 {
        let which = perm[k];
        if has[which] {
            match which {
                0 => {
                    tp.push(TYPE_START);
                    tp.push(Cell::text(t::PROTOCOL));
                    tp.push(TYPE_END);
                }
                1 => {
                    tp.push(TAG_START);
                    tp.push(Cell::text(t::OPERATION_FAILED));
                    tp.push(TAG_END);
                }
                _ => {
                    tp.push(SEV_START);
                    tp.push(sev_cell);
                    tp.push(SEV_END);
                }
            }
        }
        k += 1;
    }
    tp.push(ERR_END);
    tp.push(cells::OK); // what follows the element
    tape::register(0, tp);
    let mut reader = NsReader::from_str(tape::input_for(0));
    let _ = reader.trim_text(true);
    let start = quick_xml::events::BytesStart::from_id(n::RPC_ERROR);
    let res = Error::read_xml(&mut reader, &start);
    let well_formed = has[0] && has[1] && has[2] && sev_text < 3;
    match &res {
        Ok(e) => {
            assert!(well_formed, "C08 rpc-error: an element without its mandatory children (or with a junk severity) was accepted");
            let want = if sev_text == 1 { SEV_WARNING } else { SEV_ERROR };
            assert!(severity_code(e) == want, "C08 rpc-error: severity differs from the element's error-severity text");
            // the reader stopped right after </rpc-error>: the next event is the following <ok/>
            match reader.read_resolved_event() {
                Ok((_, quick_xml::events::Event::Empty(tag))) => assert!(tag.local_name().as_ref() == b"ok", "C08 rpc-error: reader did not stop after the end tag"),
                _ => assert!(false, "C08 rpc-error: reader did not stop after the end tag"),
            }
        }
        Err(_) => assert!(!well_formed, "C08 rpc-error: a well-formed element was rejected"),
    }
    kani::cover!(res.is_ok() && order == 5, "accepted in reverse order");
    kani::cover!(res.is_ok() && sev_text == 2, "accepted with padded severity text");
    kani::cover!(res.is_err(), "rejected");
    std::mem::forget(res);
}

/// C08 (inner reader, element structure enumerated): the real `rpc::Error::read_xml` on an
/// `<rpc-error>` whose mandatory children appear in each of the 6 orders (all present), with
/// each single child missing, and with none - 10 layouts walked by a concrete loop -, the
/// severity text symbolic over {error, warning, " error ", junk}.  `Ok` iff all three are
/// present and the severity is recognised; the severity reported is the text's; the reader stops
/// right after `</rpc-error>`.  (The fully symbolic version above runs out of memory.)
#[kani::proof]
#[kani::unwind(12)]
fn c08_rpc_error_reader_layouts() {
    use_reply_tables();
    // (order permutation, presence mask)
    const LAYOUTS: [([usize; 3], [bool; 3]); 10] = [
        ([0, 1, 2], [true, true, true]),
        ([0, 2, 1], [true, true, true]),
        ([1, 0, 2], [true, true, true]),
        ([1, 2, 0], [true, true, true]),
        ([2, 0, 1], [true, true, true]),
        ([2, 1, 0], [true, true, true]),
        ([0, 1, 2], [false, true, true]),
        ([0, 1, 2], [true, false, true]),
        ([0, 1, 2], [true, true, false]),
        ([0, 1, 2], [false, false, false]),
    ];
    let mut accepted = false;
    let mut rejected = false;
    let mut l = 0;
    while l < 10 {
        let (perm, has) = LAYOUTS[l];
        let sev_text: u8 = kani::any();
        kani::assume(sev_text < 4);
        let sev_cell = match sev_text {
            0 => Cell::text(t::ERROR),
            1 => Cell::text(t::WARNING),
            2 => Cell::text(t::ERROR_PADDED),
            _ => Cell::text(t::X),
        };
        let mut tp = Tape::EMPTY;
        let mut k = 0;
        while k < 3 {
            let which = perm[k];
            if has[which] {
                match which {
                    0 => {
                        tp.push(TYPE_START);
                        tp.push(Cell::text(t::PROTOCOL));
                        tp.push(TYPE_END);
                    }
                    1 => {
                        tp.push(TAG_START);
                        tp.push(Cell::text(t::OPERATION_FAILED));
                        tp.push(TAG_END);
                    }
                    _ => {
                        tp.push(SEV_START);
                        tp.push(sev_cell);
                        tp.push(SEV_END);
                    }
                }
            }
            k += 1;
        }
        tp.push(ERR_END);
        tp.push(cells::OK);
        tape::register(0, tp);
        let mut reader = NsReader::from_str(tape::input_for(0));
        let _ = reader.trim_text(true);
        let start = quick_xml::events::BytesStart::from_id(n::RPC_ERROR);
        let res = Error::read_xml(&mut reader, &start);
        let well_formed = has[0] && has[1] && has[2] && sev_text < 3;
        match &res {
            Ok(e) => {
                assert!(well_formed, "C08 rpc-error: an element without its mandatory children (or with a junk severity) was accepted");
                let want = if sev_text == 1 { SEV_WARNING } else { SEV_ERROR };
                assert!(severity_code(e) == want, "C08 rpc-error: severity differs from the element's error-severity text");
                match reader.read_event() {
                    Ok(quick_xml::events::Event::Empty(_)) => {}
                    _ => assert!(false, "C08 rpc-error: reader did not stop after the end tag"),
                }
                accepted = true;
            }
            Err(_) => {
                assert!(!well_formed, "C08 rpc-error: a well-formed element was rejected");
                rejected = true;
            }
        }
        std::mem::forget(res);
        l += 1;
    }
    kani::cover!(accepted && rejected, "elements are accepted and rejected");
}

// -------------------------------------------------------------------------------------------------
// C13: namespace prefix vs default namespace, on the real `rpc::Error::read_xml`.

/// `REPLY_NAMES` with the base namespace bound to the prefix `nc:` (same ids).
pub static PREFIXED_REPLY_NAMES: [&[u8]; 12] = [
    b"",
    b"nc:ok",
    b"nc:rpc-error",
    b"nc:error-type",
    b"nc:error-tag",
    b"nc:error-severity",
    b"nc:rpc-reply",
    b"nc:data",
    b"nc:other",
    b"nc:load-configuration-results",
    b"nc:load-error-count",
    b"nc:error-message",
];
/// offset of the local part in each entry above
pub static PREFIXED_LOCAL_OFFS: [u8; 12] = [0, 3, 3, 3, 3, 3, 3, 3, 3, 3, 3, 3];
static NO_LOCAL_OFFS: [u8; 1] = [0];

fn rpc_error_with_message_tape(with_message: bool) -> Tape {
    let mut tp = Tape::EMPTY;
    tp.push(TYPE_START);
    tp.push(Cell::text(t::PROTOCOL));
    tp.push(TYPE_END);
    tp.push(TAG_START);
    tp.push(Cell::text(t::OPERATION_FAILED));
    tp.push(TAG_END);
    tp.push(SEV_START);
    tp.push(Cell::text(t::ERROR));
    tp.push(SEV_END);
    if with_message {
        tp.push(Cell::start(BASE, n::ERROR_MESSAGE));
        tp.push(Cell::text(t::X));
        tp.push(Cell::end(BASE, n::ERROR_MESSAGE));
    }
    tp.push(ERR_END);
    tp.push(cells::OK);
    tp
}

fn read_error_on(tp: Tape) -> Result<Error, ReadError> {
    tape::register(0, tp);
    let mut reader = NsReader::from_str(tape::input_for(0));
    let _ = reader.trim_text(true);
    let start = quick_xml::events::BytesStart::from_id(n::RPC_ERROR);
    Error::read_xml(&mut reader, &start)
}

/// C13 (prefix choice): an `<rpc-error>` (mandatory children, optionally an `<error-message>`)
/// is read by the real `rpc::Error::read_xml` once with the base namespace as default namespace
/// and once bound to the prefix `nc:` (every element name spelled `nc:…`, namespace resolution
/// unchanged): both readings must agree on acceptance, severity and the presence of the message.
/// Element structure concrete (2 layouts by a concrete loop); what the solver decides are the
/// name comparisons and end-tag searches of the real reader on both spellings.
#[kani::proof]
#[kani::unwind(16)]
fn c13_rpc_error_prefix_choice() {
    let mut k = 0;
    while k < 2 {
        let with_message = k == 1;
        tape::set_tables(&REPLY_NAMES, &REPLY_TEXTS, &REPLY_ATTRS);
        tape::set_local_offsets(&NO_LOCAL_OFFS);
        let r1 = read_error_on(rpc_error_with_message_tape(with_message));
        tape::set_tables(&PREFIXED_REPLY_NAMES, &REPLY_TEXTS, &REPLY_ATTRS);
        tape::set_local_offsets(&PREFIXED_LOCAL_OFFS);
        let r2 = read_error_on(rpc_error_with_message_tape(with_message));
        assert!(r1.is_ok(), "C13 rpc-error: well-formed element rejected in the default-namespace spelling");
        assert!(r1.is_ok() == r2.is_ok(), "C13 rpc-error: acceptance depends on the namespace prefix choice");
        if let (Ok(e1), Ok(e2)) = (&r1, &r2) {
            assert!(severity_code(e1) == severity_code(e2), "C13 rpc-error: severity depends on the namespace prefix choice");
            assert!(e1.message.is_some() == with_message, "C13 rpc-error: <error-message> lost / invented");
            assert!(e1.message.is_some() == e2.message.is_some(), "C13 rpc-error: <error-message> depends on the namespace prefix choice");
        }
        kani::cover!(r2.is_ok() && with_message, "prefixed spelling with message accepted");
        std::mem::forget((r1, r2));
        k += 1;
    }
}

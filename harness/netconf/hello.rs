//! C12 (hello reader).  Child module of `message::hello`.
use super::*;
use quick_xml::events::BytesStart;
use quick_xml::tape::{self, ns, AttrName, Cell, Tape, TextEntry};

static NAMES: [&[u8]; 5] = [b"", b"hello", b"capabilities", b"capability", b"session-id"];
static TEXTS: [TextEntry; 12] = [
    TextEntry::plain(""),
    TextEntry::plain("urn:ietf:params:netconf:base:1.0"),
    TextEntry::plain("urn:ietf:params:netconf:base:1.1"),
    TextEntry::plain("1"),
    TextEntry::plain("4294967295"),
    TextEntry::plain("0"),
    TextEntry::plain("4294967296"),
    TextEntry::plain("-1"),
    TextEntry::plain("x"),
    TextEntry::plain(" c "),
    TextEntry::padded("\n  1\n", "1"),
    TextEntry::padded("\n  urn:ietf:params:netconf:base:1.0\n", "urn:ietf:params:netconf:base:1.0"),
];
static ATTRS: [AttrName; 1] = [AttrName { qname: b"x", local: b"x", ns: ns::UNBOUND }];

const B: u8 = ns::BASE;

/// Summary of `<Capability as FromStr>::from_str` for the capability texts of this table (by
/// content); the real function — URI validation by iri-string plus the component match — is
/// checked on concrete URIs in `c12_capability_from_str`.
pub fn stub_capability_from_str(s: &str) -> Result<Capability, ReadError> {
    if s == "urn:ietf:params:netconf:base:1.0" {
        Ok(Capability::Base(Base::V1_0))
    } else if s == "urn:ietf:params:netconf:base:1.1" {
        Ok(Capability::Base(Base::V1_1))
    } else if s.as_bytes().first().map_or(true, |b| b.is_ascii_whitespace()) {
        // not a URI (the real function: `ParseCapability`, confirmed with the real crate for the
        // padded text of this table)
        Err(ReadError::NoMessageId)
    } else {
        Ok(Capability::Candidate)
    }
}

/// Summary of `<Capabilities as ReadXml>::read_xml` for the session-id harness: consumes the
/// `<capabilities>` element (precondition asserted on the reader's own state, see
/// `rpc::error::verif_error::stub_read_xml`) and returns the set {:base:1.0}.  The real reader is
/// the subject of `c12_capabilities_reader`.
pub fn stub_capabilities_read_xml(reader: &mut NsReader<&[u8]>, start: &BytesStart<'_>) -> Result<Capabilities, ReadError> {
    let last = reader.model_last_cell();
    let on_caps = last.kind == tape::kind::START && last.name == 2 && last.ns == B;
    assert!(on_caps, "Capabilities::read_xml called on an element that is not <capabilities>");
    if !on_caps {
        return Err(ReadError::NoMessageId);
    }
    let _ = reader.read_to_end(start.to_end().name())?;
    const N: Option<Capability> = None;
    Ok(crate::capabilities::verif_caps::capabilities_from_slots([
        Some(Capability::Base(Base::V1_0)), N, N, N, N, N, N, N, N, N, N, N, N, N,
    ]))
}

/// C12: the real `Capability::from_str` on every standard capability URI, on the Junos one, on
/// an unknown URI and on a string that is not a URI (all concrete).
#[kani::proof]
#[kani::unwind(80)]
fn c12_capability_from_str() {
    use std::str::FromStr;
    let cases: [(&str, u8); 8] = [
        ("urn:ietf:params:netconf:base:1.0", 0),
        ("urn:ietf:params:netconf:base:1.1", 1),
        ("urn:ietf:params:netconf:capability:candidate:1.0", 2),
        ("urn:ietf:params:netconf:capability:xpath:1.0", 3),
        ("urn:ietf:params:netconf:capability:url:1.0?scheme=http,ftp", 4),
        ("http://xml.juniper.net/netconf/junos/1.0", 5),
        ("urn:ietf:params:xml:ns:netconf:base:1.0", 6),
        ("not a uri", 7),
    ];
    let mut i = 0;
    while i < 8 {
        let r = Capability::from_str(cases[i].0);
        let ok = match (&r, cases[i].1) {
            (Ok(Capability::Base(Base::V1_0)), 0) => true,
            (Ok(Capability::Base(Base::V1_1)), 1) => true,
            (Ok(Capability::Candidate), 2) => true,
            (Ok(Capability::XPath), 3) => true,
            (Ok(Capability::Url(s)), 4) => s.len() == 2,
            #[cfg(feature = "junos")]
            (Ok(Capability::JunosXmlManagementProtocol), 5) => true,
            (Ok(Capability::Unknown(_)), 6) => true,
            (Err(_), 7) => true,
            _ => false,
        };
        assert!(ok, "C12: capability URI parsed into the wrong capability");
        std::mem::forget(r);
        i += 1;
    }
    kani::cover!(true, "reached");
}

/// C12: `ServerHello::read_xml` over hellos built from: capabilities element present / absent
/// with the :base:1.0 and :base:1.1 capabilities each present / absent; session-id absent,
/// present once or twice, before or after the capabilities, with text from
/// {1, 4294967295, 0, 4294967296, -1, x}.  Accepted iff well-formed with exactly one valid
/// non-zero 32-bit id; reported id and base capabilities are those of the hello.
/// The two halves of the parameter space are explored by separate harnesses (each half alone
/// fits into memory; the product does not): the session-id dimension with a fixed capability
/// list, and the capability dimension with a fixed valid session-id.
/// One child of `<hello>` in a fixed window of 8 tape positions (kind 0 = nothing, 1 =
/// `<session-id>`, 2 = `<capabilities>` holding the base capabilities chosen by b10/b11, the
/// present ones first, each in a 3-position sub-window).
fn child_window(kind: u8, sid_text: u8, b10: bool, b11: bool) -> [Cell; 8] {
    const X: Cell = Cell::NONE;
    let cap = |text: u8| -> [Cell; 3] { [Cell::start(B, 3), Cell::text(text), Cell::end(B, 3)] };
    let nop3: [Cell; 3] = [Cell::nop(3), X, X];
    match kind {
        0 => [Cell::nop(8), X, X, X, X, X, X, X],
        1 => [Cell::start(B, 4), Cell::text(sid_text), Cell::end(B, 4).with_skip(5), X, X, X, X, X],
        _ => {
            let (s1, s2) = match (b10, b11) {
                (true, true) => (cap(1), cap(2)),
                (true, false) => (cap(1), nop3),
                (false, true) => (cap(2), nop3),
                (false, false) => (nop3, nop3),
            };
            [Cell::start(B, 2), s1[0], s1[1], s1[2], s2[0], s2[1], s2[2], Cell::end(B, 2)]
        }
    }
}

/// `<hello>` with the children `k1`, `k2` (concrete kinds: 1 = session-id, 2 = capabilities)
/// and, if `third` holds, a further `<session-id>`; the session-id text is `sid_text`
/// everywhere.  All windows sit at constant positions and only the *presence* of the third
/// child and the text are symbolic.
fn hello_body(k1: u8, k2: u8, third: bool, sid_text: u8) -> bool {
    tape::set_tables(&NAMES, &TEXTS, &ATTRS);
    let b10 = true;
    let b11 = false;
    let caps_present = k1 == 2 || k2 == 2;
    let sid_count: u8 = (k1 == 1) as u8 + (k2 == 1) as u8 + third as u8;
    let w1 = child_window(k1, sid_text, b10, b11);
    let w2 = child_window(k2, sid_text, b10, b11);
    let w3 = if third { child_window(1, sid_text, b10, b11) } else { child_window(0, sid_text, b10, b11) };
    let mut t = Tape::EMPTY;
    let mut j = 0;
    while j < 8 {
        t.push(w1[j]);
        j += 1;
    }
    j = 0;
    while j < 8 {
        t.push(w2[j]);
        j += 1;
    }
    j = 0;
    while j < 8 {
        t.push(w3[j]);
        j += 1;
    }
    t.push(Cell::end(B, 1));
    tape::register(0, t);
    let mut reader = NsReader::from_str(tape::input_for(0));
    let _ = reader.trim_text(true);
    let start = BytesStart::from_id(1);
    let res = ServerHello::read_xml(&mut reader, &start);
    let valid_id = sid_text == 3 || sid_text == 4;
    match &res {
        Ok(h) => {
            assert!(caps_present, "C12 hello: accepted without <capabilities>");
            assert!(sid_count == 1, "C12 hello: accepted with a missing or duplicated <session-id>");
            assert!(valid_id, "C12 hello: accepted with an invalid session-id (zero, out of range, negative or not a number)");
            let want: u32 = if sid_text == 3 { 1 } else { 4294967295 };
            assert!(h.session_id() == SessionId::new(want).unwrap(), "C12 hello: reported session-id differs from the hello's");
            let has10 = h.capabilities.iter().any(|c| matches!(c, Capability::Base(Base::V1_0)));
            let has11 = h.capabilities.iter().any(|c| matches!(c, Capability::Base(Base::V1_1)));
            assert!(has10 == b10 && has11 == b11, "C12 hello: reported base capabilities differ from the hello's");
        }
        Err(_) => {
            assert!(!(caps_present && sid_count == 1 && valid_id), "C12 hello: a well-formed hello with a valid session-id was rejected");
        }
    }
    kani::cover!(res.is_err(), "a hello is rejected");
    let accepted = res.is_ok();
    std::mem::forget(res);
    accepted
}

fn any_sid_text() -> u8 {
    let sid_text: u8 = kani::any();
    kani::assume(sid_text >= 3 && sid_text <= 8);
    sid_text
}

/// `<capabilities>` (summarised reader), then one or two `<session-id>` with any of the 6 texts.
#[kani::proof]
#[kani::unwind(10)]
#[kani::stub(<crate::capabilities::Capabilities as crate::message::ReadXml>::read_xml, stub_capabilities_read_xml)]
fn c12_server_hello_session_id_after_capabilities() {
    let accepted = hello_body(2, 1, kani::any(), any_sid_text());
    kani::cover!(accepted, "a hello is accepted");
}

/// `<session-id>` first, then `<capabilities>`, then possibly a second `<session-id>`.
#[kani::proof]
#[kani::unwind(10)]
#[kani::stub(<crate::capabilities::Capabilities as crate::message::ReadXml>::read_xml, stub_capabilities_read_xml)]
fn c12_server_hello_session_id_before_capabilities() {
    let accepted = hello_body(1, 2, kani::any(), any_sid_text());
    kani::cover!(accepted, "a hello is accepted");
}

/// A hello lacking `<session-id>` or `<capabilities>` (or both) is rejected.
#[kani::proof]
#[kani::unwind(10)]
#[kani::stub(<crate::capabilities::Capabilities as crate::message::ReadXml>::read_xml, stub_capabilities_read_xml)]
fn c12_server_hello_missing_parts() {
    let which: u8 = kani::any();
    kani::assume(which < 3);
    match which {
        0 => hello_body(2, 0, false, 3),
        1 => hello_body(1, 0, false, 3),
        _ => hello_body(0, 0, false, 3),
    };
}

/// The real `Capabilities::read_xml` (with `Capability::from_str` summarised) on
/// `<capabilities>` holding any subset of {:base:1.0, :base:1.1}: the set read is the set sent.
#[kani::proof]
#[kani::unwind(10)]
#[kani::stub(<crate::capabilities::Capability as std::str::FromStr>::from_str, stub_capability_from_str)]
fn c12_capabilities_reader() {
    tape::set_tables(&NAMES, &TEXTS, &ATTRS);
    // the four subsets are walked by a concrete loop (element structure enumerated, see
    // DESIGN.md 9.6); what stays symbolic is every branch of the reader and of the set
    // insertion that does not fold
    let mut k = 0u8;
    while k < 4 {
        let b10 = k & 1 != 0;
        let b11 = k & 2 != 0;
        let mut t = Tape::EMPTY;
        if b10 {
            t.push(Cell::start(B, 3));
            t.push(Cell::text(1));
            t.push(Cell::end(B, 3));
        }
        if b11 {
            t.push(Cell::start(B, 3));
            t.push(Cell::text(2));
            t.push(Cell::end(B, 3));
        }
        t.push(Cell::end(B, 2));
        tape::register(0, t);
        let mut reader = NsReader::from_str(tape::input_for(0));
        let _ = reader.trim_text(true);
        let start = BytesStart::from_id(2);
        let res = Capabilities::read_xml(&mut reader, &start);
        match &res {
            Ok(caps) => {
                let has10 = caps.iter().any(|c| matches!(c, Capability::Base(Base::V1_0)));
                let has11 = caps.iter().any(|c| matches!(c, Capability::Base(Base::V1_1)));
                assert!(has10 == b10 && has11 == b11, "C12 hello: capabilities read differ from the hello's");
                assert!(caps.iter().count() == b10 as usize + b11 as usize, "C12 hello: a capability was invented or duplicated");
            }
            Err(_) => assert!(false, "C12 hello: a well-formed <capabilities> was rejected"),
        }
        std::mem::forget(res);
        k += 1;
    }
    kani::cover!(true, "all four subsets read");
}

/// C12, element sequences enumerated, leaf values symbolic (see `for_each_sequence` in
/// message/rpc/verif_replies): every `<hello>` whose children are a sequence of length <= 3
/// over {<session-id>, <capabilities>} with at most one `<capabilities>` - 11 layouts walked by
/// a concrete loop -, the session-id text symbolic over {1, 4294967295, 0, 4294967296, -1, x},
/// `<capabilities>` holding :base:1.0 (`Capabilities::read_xml` summarised; the real one is
/// `c12_capabilities_reader`'s subject).  Accepted iff exactly one valid session-id and a capabilities element.
const LAYOUTS: [[u8; 3]; 12] = [
    [0, 0, 0],
    [1, 0, 0],
    [2, 0, 0],
    [1, 1, 0],
    [1, 2, 0],
    [2, 1, 0],
    [1, 1, 2],
    [1, 2, 1],
    [2, 1, 1],
    [1, 1, 1],
    [2, 2, 0],
    [2, 2, 1],
];

/// Layouts `FROM .. FROM + 3` (the 12 layouts are spread over four harnesses: the formula of
/// all of them together does not fit into 30 GB - a `ServerHello` value carries the 14 slots of
/// the model's capability set through every move).
fn hello_layouts<const FROM: usize>() {
    let mut accepted_some = false;
    let mut i = FROM;
    while i < FROM + 3 {
        // the six session-id texts are walked concretely as well: since the reader trims the
        // text (fix 1f15879) a *symbolic* text makes `str::trim` iterate over an `ite` of six
        // strings, which alone costs more than 20 minutes per layout group
        // quick tier: 1 (valid), 0 (zero), 4294967296 (out of range); thorough tier (feature
        // verif_deep): all six texts
        #[cfg(feature = "verif_deep")]
        const SID_TEXTS: [u8; 6] = [3, 4, 5, 6, 7, 8];
        #[cfg(not(feature = "verif_deep"))]
        const SID_TEXTS: [u8; 3] = [3, 5, 6];
        let mut k = 0;
        while k < SID_TEXTS.len() {
            accepted_some |= hello_layout(LAYOUTS[i], SID_TEXTS[k]);
            k += 1;
        }
        i += 1;
    }
    kani::cover!(accepted_some || FROM != 3, "a hello of this group is accepted");
    kani::cover!(!accepted_some || FROM == 3, "the group behaves as expected");
}

macro_rules! hello_sequence_harnesses {
    ($( $name:ident => $from:literal ),* $(,)?) => {
        $(
            #[kani::proof]
            #[kani::unwind(12)]
            #[kani::stub(<crate::capabilities::Capabilities as crate::message::ReadXml>::read_xml, stub_capabilities_read_xml)]
            fn $name() {
                hello_layouts::<$from>()
            }
        )*
    };
}

hello_sequence_harnesses!(
    c12_server_hello_sequences_a => 0,
    c12_server_hello_sequences_b => 3,
    c12_server_hello_sequences_c => 6,
    c12_server_hello_sequences_d => 9,
);

/// One concrete layout (`kinds[i]`: 0 nothing, 1 session-id, 2 capabilities; nothing only at
/// the end), symbolic session-id text.
fn hello_layout(kinds: [u8; 3], sid_text: u8) -> bool {
    tape::set_tables(&NAMES, &TEXTS, &ATTRS);
    let mut t = Tape::EMPTY;
    let mut caps_count = 0u8;
    let mut sid_count = 0u8;
    let mut i = 0;
    while i < 3 {
        match kinds[i] {
            1 => {
                t.push(Cell::start(B, 4));
                t.push(Cell::text(sid_text));
                t.push(Cell::end(B, 4));
                sid_count += 1;
            }
            2 => {
                t.push(Cell::start(B, 2));
                t.push(Cell::start(B, 3));
                t.push(Cell::text(1));
                t.push(Cell::end(B, 3));
                t.push(Cell::end(B, 2));
                caps_count += 1;
            }
            _ => {}
        }
        i += 1;
    }
    let caps_present = caps_count == 1;
    t.push(Cell::end(B, 1));
    tape::register(0, t);
    let mut reader = NsReader::from_str(tape::input_for(0));
    let _ = reader.trim_text(true);
    let start = BytesStart::from_id(1);
    let res = ServerHello::read_xml(&mut reader, &start);
    let valid_id = sid_text == 3 || sid_text == 4;
    match &res {
        Ok(h) => {
            assert!(caps_present, "C12 hello: accepted without exactly one <capabilities>");
            assert!(sid_count == 1, "C12 hello: accepted with a missing or duplicated <session-id>");
            assert!(valid_id, "C12 hello: accepted with an invalid session-id (zero, out of range, negative or not a number)");
            let want: u32 = if sid_text == 3 { 1 } else { 4294967295 };
            assert!(h.session_id() == SessionId::new(want).unwrap(), "C12 hello: reported session-id differs from the hello's");
            // (the capability set is the summarised reader's; its content is c12_capabilities_reader's subject)
        }
        Err(_) => {
            assert!(!(caps_present && sid_count == 1 && valid_id), "C12 hello: a well-formed hello with a valid session-id was rejected");
        }
    }
    let ok = res.is_ok();
    std::mem::forget(res);
    ok
}

/// C13 (comments, hello): a comment before or after a `<capability>` inside `<capabilities>`
/// does not change what `Capabilities::read_xml` makes of the element.
#[kani::proof]
#[kani::unwind(10)]
#[kani::stub(<crate::capabilities::Capability as std::str::FromStr>::from_str, stub_capability_from_str)]
fn c13_capabilities_comment_insertion() {
    tape::set_tables(&NAMES, &TEXTS, &ATTRS);
    let cap: [Cell; 3] = [Cell::start(B, 3), Cell::text(1), Cell::end(B, 3)];
    let comment = Cell::comment(9);
    // outcome: 0 = Ok with exactly {:base:1.0}, 1 = Ok with something else, 2 = Err
    let mut code = [0u8; 3];
    let mut v = 0;
    while v < 3 {
        let mut t = Tape::EMPTY;
        if v == 1 {
            t.push(comment);
        }
        t.push(cap[0]);
        t.push(cap[1]);
        t.push(cap[2]);
        if v == 2 {
            t.push(comment);
        }
        t.push(Cell::end(B, 2));
        tape::register(0, t);
        let mut reader = NsReader::from_str(tape::input_for(0));
        let _ = reader.trim_text(true);
        let start = BytesStart::from_id(2);
        let res = Capabilities::read_xml(&mut reader, &start);
        code[v] = match &res {
            Ok(caps) => {
                if caps.iter().count() == 1 && caps.iter().any(|c| matches!(c, Capability::Base(Base::V1_0))) {
                    0
                } else {
                    1
                }
            }
            Err(_) => 2,
        };
        std::mem::forget(res);
        v += 1;
    }
    assert!(code[0] == 0, "C13 capabilities: the plain element is not read as {:base:1.0}");
    assert!(code[1] == code[0], "C13 capabilities: a comment before a <capability> changes the outcome");
    assert!(code[2] == code[0], "C13 capabilities: a comment after a <capability> changes the outcome");
    kani::cover!(true, "three readings completed");
}

/// C13 (whitespace around token-valued text, hello, part 1): a `<session-id>` whose text is
/// surrounded by whitespace (a pretty-printing server) is read like the compact form
/// (`Capabilities::read_xml` summarised).
#[kani::proof]
#[kani::unwind(10)]
#[kani::stub(<crate::capabilities::Capabilities as crate::message::ReadXml>::read_xml, stub_capabilities_read_xml)]
fn c13_session_id_whitespace() {
    tape::set_tables(&NAMES, &TEXTS, &ATTRS);
    const SID_TEXTS: [u8; 2] = [3, 10];
    let mut ok = [false; 2];
    let mut v = 0;
    while v < 2 {
        let mut t = Tape::EMPTY;
        t.push(Cell::start(B, 2));
        t.push(Cell::start(B, 3));
        t.push(Cell::text(1));
        t.push(Cell::end(B, 3));
        t.push(Cell::end(B, 2));
        t.push(Cell::start(B, 4));
        t.push(Cell::text(SID_TEXTS[v]));
        t.push(Cell::end(B, 4));
        t.push(Cell::end(B, 1));
        tape::register(0, t);
        let mut reader = NsReader::from_str(tape::input_for(0));
        let _ = reader.trim_text(true);
        let start = BytesStart::from_id(1);
        let res = ServerHello::read_xml(&mut reader, &start);
        ok[v] = match &res {
            Ok(h) => h.session_id() == SessionId::new(1).unwrap(),
            Err(_) => false,
        };
        std::mem::forget(res);
        v += 1;
    }
    assert!(ok[0], "C13 hello: the compact hello is not read as session 1");
    assert!(ok[1], "C13 hello: whitespace around the session-id text changes the outcome");
    kani::cover!(true, "both readings completed");
}

/// C13 (whitespace around token-valued text, hello, part 2): a `<capability>` whose URI is
/// surrounded by whitespace is read like the compact form.
#[kani::proof]
#[kani::unwind(10)]
#[kani::stub(<crate::capabilities::Capability as std::str::FromStr>::from_str, stub_capability_from_str)]
fn c13_capability_whitespace() {
    tape::set_tables(&NAMES, &TEXTS, &ATTRS);
    const CAP_TEXTS: [u8; 2] = [1, 11];
    let mut ok = [false; 2];
    let mut v = 0;
    while v < 2 {
        let mut t = Tape::EMPTY;
        t.push(Cell::start(B, 3));
        t.push(Cell::text(CAP_TEXTS[v]));
        t.push(Cell::end(B, 3));
        t.push(Cell::end(B, 2));
        tape::register(0, t);
        let mut reader = NsReader::from_str(tape::input_for(0));
        let _ = reader.trim_text(true);
        let start = BytesStart::from_id(2);
        let res = Capabilities::read_xml(&mut reader, &start);
        ok[v] = match &res {
            Ok(caps) => caps.iter().count() == 1 && caps.iter().any(|c| matches!(c, Capability::Base(Base::V1_0))),
            Err(_) => false,
        };
        std::mem::forget(res);
        v += 1;
    }
    assert!(ok[0], "C13 capabilities: the compact element is not read as {:base:1.0}");
    assert!(ok[1], "C13 capabilities: whitespace around a capability URI changes the outcome");
    kani::cover!(true, "both readings completed");
}

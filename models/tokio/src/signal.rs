//! `tokio::signal::unix` model: deliveries are raised by the harness (`model::raise`).
pub mod unix {
    use std::future::Future;
    use std::io;
    use std::pin::Pin;
    use std::task::{Context, Poll};

    use crate::model;

    #[derive(Debug, Clone, Copy, PartialEq, Eq)]
    pub struct SignalKind(usize);

    impl SignalKind {
        pub const fn hangup() -> Self {
            Self(0)
        }
        pub const fn interrupt() -> Self {
            Self(1)
        }
        pub const fn terminate() -> Self {
            Self(2)
        }
        pub const fn user_defined1() -> Self {
            Self(3)
        }
    }

    #[derive(Debug)]
    pub struct Signal {
        kind: usize,
    }

    pub fn signal(kind: SignalKind) -> io::Result<Signal> {
        Ok(Signal { kind: kind.0 })
    }

    pub struct Recv<'a> {
        s: &'a mut Signal,
    }

    impl Future for Recv<'_> {
        type Output = Option<()>;
        fn poll(self: Pin<&mut Self>, _cx: &mut Context<'_>) -> Poll<Option<()>> {
            if model::take_signal(self.s.kind) {
                Poll::Ready(Some(()))
            } else {
                Poll::Pending
            }
        }
    }

    impl Signal {
        pub fn recv(&mut self) -> Recv<'_> {
            Recv { s: self }
        }
    }
}

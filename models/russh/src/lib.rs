//! Verification model of `russh` 0.39 (client side, one session channel).
//!
//! `Channel::wait()` replays a script of channel messages registered by the harness
//! ([`model::set_script`]); after the script it answers `Pending` (peer silent) or, once the
//! script contains `Closed`, `None` for ever (the real channel's receiver yields `None` once
//! the session task has dropped the sender).  Key exchange, authentication, windowing and
//! packet reassembly are not modelled.
use std::fmt;
use std::future::Future;
use std::pin::Pin;
use std::sync::Arc;
use std::task::{Context, Poll};

use tokio::io::AsyncRead;
use tokio::net::ToSocketAddrs;

/// Field-less (see quick-xml model errors.rs for why).
#[derive(Debug, Clone, Copy, PartialEq, Eq)]
pub enum Error {
    SendError,
    Disconnect,
    NotAuthenticated,
    IO,
}
impl fmt::Display for Error {
    fn fmt(&self, f: &mut fmt::Formatter<'_>) -> fmt::Result {
        f.write_str("russh error (model)")
    }
}
impl std::error::Error for Error {}
impl From<std::io::Error> for Error {
    fn from(e: std::io::Error) -> Self {
        std::mem::forget(e);
        Error::IO
    }
}

/// Byte container of channel data.
#[derive(Clone, PartialEq, Eq)]
pub struct CryptoVec(Vec<u8>);
impl CryptoVec {
    pub fn from_slice(s: &[u8]) -> Self {
        Self(s.to_vec())
    }
}
impl std::ops::Deref for CryptoVec {
    type Target = [u8];
    fn deref(&self) -> &[u8] {
        &self.0
    }
}
impl AsRef<[u8]> for CryptoVec {
    fn as_ref(&self) -> &[u8] {
        &self.0
    }
}
impl fmt::Debug for CryptoVec {
    fn fmt(&self, f: &mut fmt::Formatter<'_>) -> fmt::Result {
        f.write_str("CryptoVec(..)")
    }
}

#[derive(Debug, Clone, Copy, PartialEq, Eq)]
pub struct ChannelId(pub u32);

#[derive(Debug)]
#[non_exhaustive]
pub enum ChannelMsg {
    Data { data: CryptoVec },
    ExtendedData { data: CryptoVec, ext: u32 },
    Eof,
    Close,
    Success,
    Failure,
    WindowAdjusted { new_size: u32 },
    ExitStatus { exit_status: u32 },
}

pub mod model {
    //! Channel script.
    pub const CHUNK_CAP: usize = 16;
    pub const MAX_STEPS: usize = 6;

    #[derive(Clone, Copy, PartialEq, Eq, Debug)]
    pub enum Step {
        Data { len: u8, bytes: [u8; CHUNK_CAP] },
        Eof,
        Close,
        WindowAdjusted,
        /// the session task is gone: this and every later `wait()` returns `None`
        Closed,
    }

    pub const EMPTY_STEP: Step = Step::WindowAdjusted;

    pub struct Script {
        pub steps: [Step; MAX_STEPS],
        pub n: usize,
        pub pos: usize,
        pub waits: usize,
        pub starved_waits: usize,
        pub sent_msgs: usize,
        pub fail_sends: bool,
        pub connect_fails: bool,
        pub auth_ok: bool,
        /// `wait()` calls answered `None` so far
        pub none_answers: usize,
        /// the client kept calling `wait()` after `none_limit` answers of `None`: from then on
        /// `wait()` answers `Pending` (a spinning pump shows up as this flag)
        pub overrun: bool,
        pub none_limit: usize,
    }

    pub(crate) static mut SCRIPT: Script = Script {
        steps: [EMPTY_STEP; MAX_STEPS],
        n: 0,
        pos: 0,
        waits: 0,
        starved_waits: 0,
        sent_msgs: 0,
        fail_sends: false,
        connect_fails: false,
        auth_ok: true,
        none_answers: 0,
        overrun: false,
        none_limit: 2,
    };

    pub fn set_script(steps: [Step; MAX_STEPS], n: usize) {
        unsafe {
            let s = &mut *std::ptr::addr_of_mut!(SCRIPT);
            s.steps = steps;
            s.n = n;
            s.pos = 0;
            s.waits = 0;
            s.starved_waits = 0;
            s.sent_msgs = 0;
            s.none_answers = 0;
            s.overrun = false;
        }
    }
    pub fn overrun() -> bool {
        unsafe { SCRIPT.overrun }
    }
    pub fn set_fail_sends(on: bool) {
        unsafe { SCRIPT.fail_sends = on }
    }
    pub fn set_connect_fails(on: bool) {
        unsafe { SCRIPT.connect_fails = on }
    }
    pub fn set_auth_ok(on: bool) {
        unsafe { SCRIPT.auth_ok = on }
    }
    pub fn waits() -> usize {
        unsafe { SCRIPT.waits }
    }
    pub fn starved_waits() -> usize {
        unsafe { SCRIPT.starved_waits }
    }
    pub fn pos() -> usize {
        unsafe { SCRIPT.pos }
    }
    pub fn sent_msgs() -> usize {
        unsafe { SCRIPT.sent_msgs }
    }
}

#[derive(Debug)]
pub struct Channel<M> {
    _m: std::marker::PhantomData<M>,
}

unsafe impl<M> Send for Channel<M> {}
unsafe impl<M> Sync for Channel<M> {}

pub struct Wait<'a, M> {
    _c: &'a mut Channel<M>,
    y: tokio::model::Yield,
}

impl<M> Unpin for Wait<'_, M> {}

impl<M> Future for Wait<'_, M> {
    type Output = Option<ChannelMsg>;
    fn poll(mut self: Pin<&mut Self>, _cx: &mut Context<'_>) -> Poll<Self::Output> {
        if self.y.should_yield() {
            return Poll::Pending;
        }
        unsafe {
            let s = &mut *std::ptr::addr_of_mut!(model::SCRIPT);
            if s.pos >= s.n || s.pos >= model::MAX_STEPS {
                s.starved_waits += 1;
                return Poll::Pending;
            }
            s.waits += 1;
            let step = s.steps[s.pos];
            match step {
                model::Step::Closed => {
                    if s.none_answers >= s.none_limit {
                        s.overrun = true;
                        return Poll::Pending;
                    }
                    s.none_answers += 1;
                    Poll::Ready(None)
                }
                model::Step::Data { len, bytes } => {
                    s.pos += 1;
                    let n = (len as usize).min(model::CHUNK_CAP);
                    Poll::Ready(Some(ChannelMsg::Data { data: CryptoVec::from_slice(&bytes[..n]) }))
                }
                model::Step::Eof => {
                    s.pos += 1;
                    Poll::Ready(Some(ChannelMsg::Eof))
                }
                model::Step::Close => {
                    s.pos += 1;
                    Poll::Ready(Some(ChannelMsg::Close))
                }
                model::Step::WindowAdjusted => {
                    s.pos += 1;
                    Poll::Ready(Some(ChannelMsg::WindowAdjusted { new_size: 1 << 20 }))
                }
            }
        }
    }
}

impl<M> Channel<M> {
    pub fn wait(&mut self) -> Wait<'_, M> {
        Wait { _c: self, y: tokio::model::Yield::new() }
    }

    pub async fn data<R: AsyncRead + Unpin>(&mut self, _data: R) -> Result<(), Error> {
        unsafe {
            let s = &mut *std::ptr::addr_of_mut!(model::SCRIPT);
            if s.fail_sends {
                return Err(Error::SendError);
            }
            s.sent_msgs += 1;
        }
        Ok(())
    }

    pub async fn request_subsystem<A: Into<String>>(&mut self, _want_reply: bool, _name: A) -> Result<(), Error> {
        Ok(())
    }

    pub async fn eof(&mut self) -> Result<(), Error> {
        Ok(())
    }

    pub async fn close(&self) -> Result<(), Error> {
        Ok(())
    }
}

pub mod client {
    use super::*;
    use russh_keys::key::PublicKey;

    #[derive(Debug, Default, Clone)]
    pub struct Config {}

    #[derive(Debug)]
    pub struct Msg(());

    #[async_trait::async_trait]
    pub trait Handler: Sized + Send {
        type Error: From<crate::Error> + Send;

        async fn check_server_key(self, _server_public_key: &PublicKey) -> Result<(Self, bool), Self::Error> {
            Ok((self, false))
        }
    }

    pub struct Handle<H: Handler> {
        _h: std::marker::PhantomData<H>,
    }

    unsafe impl<H: Handler> Send for Handle<H> {}

    impl<H: Handler> fmt::Debug for Handle<H> {
        fn fmt(&self, f: &mut fmt::Formatter<'_>) -> fmt::Result {
            f.write_str("Handle { .. }")
        }
    }

    impl<H: Handler> Handle<H> {
        pub async fn authenticate_password<U: Into<String>, P: Into<String>>(
            &mut self,
            _user: U,
            _password: P,
        ) -> Result<bool, crate::Error> {
            Ok(unsafe { model::SCRIPT.auth_ok })
        }

        pub async fn channel_open_session(&self) -> Result<Channel<Msg>, crate::Error> {
            Ok(Channel { _m: std::marker::PhantomData })
        }
    }

    pub async fn connect<H: Handler + Send + 'static, A: ToSocketAddrs>(
        _config: Arc<Config>,
        _addrs: A,
        handler: H,
    ) -> Result<Handle<H>, H::Error> {
        if unsafe { model::SCRIPT.connect_fails } {
            return Err(H::Error::from(crate::Error::Disconnect));
        }
        let (_h, ok) = handler.check_server_key(&PublicKey::model()).await?;
        if !ok {
            return Err(H::Error::from(crate::Error::Disconnect));
        }
        Ok(Handle { _h: std::marker::PhantomData })
    }
}

//! C19: the daemon loop `Loop::start` — back-off, period, signals — over the virtual clock of
//! the tokio model.  Child module of `task`.
//!
//! The outcome of each updater job is chosen by the harness through the tokio model's spawn
//! override (the job future itself is not run): C19 quantifies over sequences of run outcomes,
//! not over what happens inside a run (that is C04).
use super::*;
use tokio::model;

/// Smallest possible transport (the job future embeds the session types; CBMC pays for every
/// field of that future each time it is created or moved).
#[derive(Debug)]
struct NullTransport;
#[derive(Debug)]
struct NullHandle;

impl netconf::transport::Transport for NullTransport {
    type SendHandle = NullHandle;
    type RecvHandle = NullHandle;
    fn split(self) -> (NullHandle, NullHandle) {
        (NullHandle, NullHandle)
    }
}

#[async_trait::async_trait]
impl netconf::transport::SendHandle for NullHandle {
    async fn send(&mut self, _data: bytes::Bytes) -> Result<(), netconf::Error> {
        Err(netconf::Error::DequeueMessage)
    }
}

#[async_trait::async_trait]
impl netconf::transport::RecvHandle for NullHandle {
    async fn recv(&mut self) -> Result<bytes::Bytes, netconf::Error> {
        Err(netconf::Error::DequeueMessage)
    }
}

#[derive(Debug, Clone)]
struct NoTarget;

impl Target for NoTarget {
    type Transport = NullTransport;
    async fn connect(self) -> anyhow::Result<crate::netconf::Client<Self, crate::netconf::Closed>> {
        Err(anyhow::anyhow!("unreachable in this harness"))
    }
}

const MAX_RUNS: usize = 3;

struct Trace {
    runs: usize,
    at_ns: [u128; MAX_RUNS],
    ok: [bool; MAX_RUNS],
    /// outcome script
    script_ok: [bool; MAX_RUNS],
    /// how long each job takes (seconds of virtual time)
    script_secs: [u64; MAX_RUNS],
}

static mut TRACE: Trace = Trace { runs: 0, at_ns: [0; MAX_RUNS], ok: [false; MAX_RUNS], script_ok: [false; MAX_RUNS], script_secs: [0; MAX_RUNS] };

fn job_outcome() -> Option<Box<dyn std::any::Any>> {
    unsafe {
        let t = &mut *std::ptr::addr_of_mut!(TRACE);
        let i = t.runs;
        assert!(i < MAX_RUNS, "harness bound: more runs than scripted");
        t.at_ns[i] = model::now_ns();
        t.ok[i] = t.script_ok[i];
        t.runs += 1;
        model::advance_ns(t.script_secs[i] as u128 * 1_000_000_000);
        let r: anyhow::Result<()> = if t.script_ok[i] { Ok(()) } else { Err(anyhow::Error::msg("job failed")) };
        Some(Box::new(r))
    }
}

fn new_loop(period_secs: NonZeroU64) -> Loop<NoTarget> {
    let updater = Updater {
        target: NoTarget,
        irrd: Arc::new(crate::cli::verif_cli::irrd_opts()),
        junos: Arc::new(crate::cli::verif_cli::junos_opts()),
    };
    updater.init_loop(period_secs)
}

const SEC: u128 = 1_000_000_000;

/// Back-off and period: for every period, every outcome sequence of up to 4 runs and every job
/// duration (0..=100 s), the delay before each run obeys C19.
#[kani::proof]
#[kani::unwind(8)]
fn c19_backoff_and_period() {
    let period: NonZeroU64 = kani::any();
    let secs = period.get();
    // keep `period * 1e9` and the doubling far from the u64/u128 limits (the overflow of
    // `backoff * 2` needs 58 consecutive failures; outside this bound)
    kani::assume(secs <= 1 << 40);
    unsafe {
        let t = &mut *std::ptr::addr_of_mut!(TRACE);
        t.runs = 0;
        let mut i = 0;
        while i < MAX_RUNS {
            t.script_ok[i] = kani::any();
            let d: u64 = kani::any();
            kani::assume(d <= 100);
            t.script_secs[i] = d;
            i += 1;
        }
    }
    model::set_now_ns(0);
    model::set_spawn_override(Some(job_outcome));
    let lp = new_loop(period);
    let mut fut = std::pin::pin!(lp.start());
    // executor: poll; when the loop is waiting, advance the clock to the timer deadline
    let mut steps = 0;
    let mut finished = false;
    while steps < MAX_RUNS {
        if model::poll_once(fut.as_mut()).is_ready() {
            finished = true;
            break;
        }
        let runs = unsafe { TRACE.runs };
        if runs >= MAX_RUNS {
            break;
        }
        match model::timer_deadline_ns() {
            Some(d) => {
                if d > model::now_ns() {
                    model::set_now_ns(d);
                }
            }
            None => assert!(false, "C19: loop is waiting without an armed timer"),
        }
        steps += 1;
    }
    assert!(!finished, "C19: the loop ended without a termination signal");
    let t = unsafe { &*std::ptr::addr_of!(TRACE) };
    let period_ns = secs as u128 * SEC;
    let cap = if period_ns > 60 * SEC { period_ns } else { 60 * SEC };
    assert!(t.runs == MAX_RUNS, "C19: fewer runs than timer expirations");
    assert!(t.at_ns[0] == 0, "C19: the first run does not start immediately");
    let mut consecutive_failures = 0u32;
    let mut prev_delay = 0u128;
    let mut i = 0;
    while i + 1 < MAX_RUNS {
        let end = t.at_ns[i] + t.script_secs[i] as u128 * SEC;
        let delay = t.at_ns[i + 1] - end;
        assert!(delay > 0, "C19: two runs follow each other without delay");
        if t.ok[i] {
            assert!(delay == period_ns, "C19: after a successful run the next run is not one period later");
            consecutive_failures = 0;
        } else {
            assert!(delay <= cap, "C19: retry delay exceeds max(60 s, period)");
            if consecutive_failures == 0 {
                assert!(delay == 60 * SEC, "C19: the first retry delay is not one minute");
            } else if secs >= 60 {
                assert!(delay >= prev_delay, "C19: retry delay shrinks while failures continue");
                assert!(delay == cap || delay >= 2 * prev_delay, "C19: retry delay does not grow below the cap");
            }
            consecutive_failures += 1;
        }
        prev_delay = delay;
        i += 1;
    }
    kani::cover!(!t.ok[0] && !t.ok[1] && secs > 240, "two failures in a row, long period");
    kani::cover!(!t.ok[0] && t.ok[1] && secs < 60, "failure then success, short period");
    kani::cover!(t.ok[0] && t.ok[1], "two successes");
}

/// Signals: SIGHUP while waiting triggers an immediate run; SIGINT / SIGTERM while waiting
/// make `start()` return `Ok`.
#[kani::proof]
#[kani::unwind(8)]
fn c19_signals() {
    let period: NonZeroU64 = kani::any();
    let secs = period.get();
    kani::assume(secs <= 1 << 40);
    unsafe {
        let t = &mut *std::ptr::addr_of_mut!(TRACE);
        t.runs = 0;
        let mut i = 0;
        while i < MAX_RUNS {
            t.script_ok[i] = kani::any();
            t.script_secs[i] = 1;
            i += 1;
        }
    }
    model::set_now_ns(0);
    model::set_spawn_override(Some(job_outcome));
    let lp = new_loop(period);
    let mut fut = std::pin::pin!(lp.start());
    // first run happens at once; afterwards the loop waits
    assert!(model::poll_once(fut.as_mut()).is_pending(), "C19: loop ended after the first run");
    assert!(unsafe { TRACE.runs } == 1);
    let deadline = model::timer_deadline_ns().unwrap();
    // some time passes, but the timer has not expired yet
    let wait: u128 = kani::any();
    kani::assume(model::now_ns() + wait < deadline);
    model::advance_ns(wait);
    let sig: u8 = kani::any();
    kani::assume(sig < 3);
    model::raise(sig as usize); // 0 = SIGHUP, 1 = SIGINT, 2 = SIGTERM
    let now = model::now_ns();
    let r = model::poll_once(fut.as_mut());
    match sig {
        0 => {
            assert!(r.is_pending(), "C19: SIGHUP ended the loop");
            assert!(unsafe { TRACE.runs } == 2, "C19: SIGHUP did not trigger a run");
            assert!(unsafe { TRACE.at_ns[1] } == now, "C19: the run after SIGHUP is not immediate");
        }
        _ => {
            match r {
                std::task::Poll::Ready(Ok(())) => {}
                std::task::Poll::Ready(Err(_)) => assert!(false, "C19: termination signal reported as an error"),
                std::task::Poll::Pending => assert!(false, "C19: termination signal ignored while waiting"),
            }
            assert!(unsafe { TRACE.runs } == 1, "C19: a run was started after the termination signal");
        }
    }
    kani::cover!(sig == 0, "SIGHUP");
    kani::cover!(sig == 2, "SIGTERM");
}

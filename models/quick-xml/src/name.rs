use std::fmt;

#[derive(Clone, Copy, Hash, PartialEq, Eq, PartialOrd, Ord)]
pub struct QName<'a>(pub &'a [u8]);

impl<'a> QName<'a> {
    pub fn into_inner(self) -> &'a [u8] {
        self.0
    }
    pub fn local_name(&self) -> LocalName<'a> {
        LocalName(&self.0[local_offset(self.0)..])
    }
    pub fn prefix(&self) -> Option<Prefix<'a>> {
        let off = local_offset(self.0);
        if off == 0 {
            None
        } else {
            Some(Prefix(&self.0[..off - 1]))
        }
    }
}

/// Offset of the local part of a qualified name (position after the first `:` or 0).
pub(crate) fn local_offset(q: &[u8]) -> usize {
    let mut i = 0;
    while i < q.len() {
        if q[i] == b':' {
            return i + 1;
        }
        i += 1;
    }
    0
}

impl fmt::Debug for QName<'_> {
    fn fmt(&self, f: &mut fmt::Formatter<'_>) -> fmt::Result {
        write!(f, "QName({:?})", String::from_utf8_lossy(self.0))
    }
}
impl AsRef<[u8]> for QName<'_> {
    fn as_ref(&self) -> &[u8] {
        self.0
    }
}

#[derive(Clone, Copy, Hash, PartialEq, Eq, PartialOrd, Ord)]
pub struct LocalName<'a>(pub(crate) &'a [u8]);
impl<'a> LocalName<'a> {
    pub fn into_inner(self) -> &'a [u8] {
        self.0
    }
}
impl fmt::Debug for LocalName<'_> {
    fn fmt(&self, f: &mut fmt::Formatter<'_>) -> fmt::Result {
        write!(f, "LocalName({:?})", String::from_utf8_lossy(self.0))
    }
}
impl AsRef<[u8]> for LocalName<'_> {
    fn as_ref(&self) -> &[u8] {
        self.0
    }
}
impl<'a> From<QName<'a>> for LocalName<'a> {
    fn from(q: QName<'a>) -> Self {
        q.local_name()
    }
}

#[derive(Clone, Copy, Hash, PartialEq, Eq, PartialOrd, Ord)]
pub struct Prefix<'a>(pub(crate) &'a [u8]);
impl<'a> Prefix<'a> {
    pub fn into_inner(self) -> &'a [u8] {
        self.0
    }
}
impl fmt::Debug for Prefix<'_> {
    fn fmt(&self, f: &mut fmt::Formatter<'_>) -> fmt::Result {
        write!(f, "Prefix({:?})", String::from_utf8_lossy(self.0))
    }
}
impl AsRef<[u8]> for Prefix<'_> {
    fn as_ref(&self) -> &[u8] {
        self.0
    }
}

#[derive(Clone, Copy, Hash, PartialEq, Eq, PartialOrd, Ord)]
pub struct Namespace<'a>(pub &'a [u8]);
impl<'a> Namespace<'a> {
    pub fn into_inner(self) -> &'a [u8] {
        self.0
    }
}
impl fmt::Debug for Namespace<'_> {
    fn fmt(&self, f: &mut fmt::Formatter<'_>) -> fmt::Result {
        write!(f, "Namespace({:?})", String::from_utf8_lossy(self.0))
    }
}
impl AsRef<[u8]> for Namespace<'_> {
    fn as_ref(&self) -> &[u8] {
        self.0
    }
}

/// Model: `Unknown` carries a borrowed prefix instead of the real crate's `Vec<u8>`, so that
/// the `(ResolveResult, Event)` pairs the readers match on have no drop glue at all.
#[derive(Clone, Copy, PartialEq, Eq, Hash)]
pub enum ResolveResult<'ns> {
    Unbound,
    Bound(Namespace<'ns>),
    Unknown(&'ns [u8]),
}
impl fmt::Debug for ResolveResult<'_> {
    fn fmt(&self, f: &mut fmt::Formatter<'_>) -> fmt::Result {
        match self {
            Self::Unbound => write!(f, "Unbound"),
            Self::Bound(ns) => write!(f, "Bound({:?})", ns),
            Self::Unknown(p) => write!(f, "Unknown({:?})", String::from_utf8_lossy(p)),
        }
    }
}

//! C08 / C13 / C14 harnesses for the reply readers.  Child module of `message::rpc`.
use super::*;
use crate::verif_support::*;
use quick_xml::tape::{self, Tape};
use quick_xml::events::BytesStart;

fn reader_for<'a>(slot: u8) -> NsReader<&'a [u8]> {
    let mut r = NsReader::from_str(tape::input_for(slot));
    let _ = r.trim_text(true);
    r
}

/// Build `[item]* </rpc-reply>` (the content a reply reader sees after `from_xml` consumed
/// the start tag) from `N` symbolic items, `n` of which are used.
fn content_tape<const N: usize>(items: &[Item; N], n: usize) -> Tape {
    let mut t = Tape::EMPTY;
    let mut i = 0;
    while i < N {
        if i < n {
            push_item(&mut t, items[i]);
        }
        i += 1;
    }
    reply_close(&mut t);
    t
}

const N_ITEMS: usize = 2;

#[kani::proof]
#[kani::unwind(8)]
fn c08_empty_reply() {
    use_reply_tables();
    register_error_macros();
    let items: [Item; N_ITEMS] = [Item::any(); N_ITEMS].map(|_| Item::any());
    let n: usize = kani::any();
    kani::assume(n <= N_ITEMS);
    tape::register(0, content_tape(&items, n));
    let mut reader = reader_for(0);
    let start = BytesStart::from_id(n::RPC_REPLY);
    let res = EmptyReply::read_xml(&mut reader, &start);
    let mut has_error = false;
    let mut n_rpc_errors = 0;
    let mut has_ok = false;
    let mut i = 0;
    while i < N_ITEMS {
        if i < n {
            has_error |= items[i].is_error_severity_error();
            if items[i].is_rpc_error() {
                n_rpc_errors += 1;
            }
            has_ok |= items[i] == Item::Ok || items[i] == Item::OkPair;
        }
        i += 1;
    }
    match &res {
        Ok(EmptyReply::Ok) => {
            assert!(!has_error, "C08: reply with rpc-error(error) reported as success");
            assert!(has_ok, "C08: success without <ok/>");
        }
        Ok(EmptyReply::Errs(errs)) => {
            assert!(errs.len() == n_rpc_errors, "C08: reported errors differ from the reply's");
        }
        Err(_) => {}
    }
    kani::cover!(matches!(res, Ok(EmptyReply::Ok)), "some reply is Ok");
    kani::cover!(matches!(res, Ok(EmptyReply::Errs(_))), "some reply is Errs");
    kani::cover!(res.is_err(), "some reply is a read error");
    std::mem::forget(res);
}

#[kani::proof]
fn cal_nothing() {
    let x: u8 = kani::any();
    assert!(x as u32 + 1 > 0);
}


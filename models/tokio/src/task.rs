//! `tokio::task` model: spawned futures go into the model's task table; a `JoinHandle`
//! completes once its task has produced a value.  Awaiting a `JoinHandle` also drives its
//! task (so a harness that never polls tasks explicitly still makes progress).
use std::cell::UnsafeCell;
use std::fmt;
use std::future::Future;
use std::pin::Pin;
use std::sync::Arc;
use std::task::{Context, Poll};

use crate::model;

struct Slot<T>(UnsafeCell<Option<T>>);
unsafe impl<T: Send> Send for Slot<T> {}
unsafe impl<T: Send> Sync for Slot<T> {}

pub struct JoinHandle<T> {
    slot: Arc<Slot<T>>,
    index: usize,
    /// outcome decided by the spawn-override hook (see `model::set_spawn_override`)
    overridden: Option<Result<T, JoinError>>,
}

impl<T> Unpin for JoinHandle<T> {}

impl<T> fmt::Debug for JoinHandle<T> {
    fn fmt(&self, f: &mut fmt::Formatter<'_>) -> fmt::Result {
        f.write_str("JoinHandle { .. }")
    }
}

impl<T> JoinHandle<T> {
    /// Model hook: index in the task table.
    pub fn index(&self) -> usize {
        self.index
    }
    pub fn is_finished(&self) -> bool {
        model::task_finished(self.index)
    }
    pub fn abort(&self) {}
}

#[derive(Debug)]
pub struct JoinError(());

impl fmt::Display for JoinError {
    fn fmt(&self, f: &mut fmt::Formatter<'_>) -> fmt::Result {
        f.write_str("task failed (model)")
    }
}
impl std::error::Error for JoinError {}

impl<T> Future for JoinHandle<T> {
    type Output = Result<T, JoinError>;
    fn poll(mut self: Pin<&mut Self>, _cx: &mut Context<'_>) -> Poll<Self::Output> {
        if let Some(r) = self.overridden.take() {
            return Poll::Ready(r);
        }
        if let Some(v) = unsafe { (*self.slot.0.get()).take() } {
            return Poll::Ready(Ok(v));
        }
        let _ = model::poll_task(self.index);
        match unsafe { (*self.slot.0.get()).take() } {
            Some(v) => Poll::Ready(Ok(v)),
            None => Poll::Pending,
        }
    }
}

pub fn spawn<F>(future: F) -> JoinHandle<F::Output>
where
    F: Future + Send + 'static,
    F::Output: Send + 'static,
{
    if let Some(hook) = model::spawn_override() {
        std::mem::forget(future);
        let overridden = match hook() {
            Some(b) => match b.downcast::<F::Output>() {
                Ok(v) => Ok(*v),
                Err(_) => panic!("model: spawn override returned a value of the wrong type"),
            },
            None => Err(JoinError(())),
        };
        return JoinHandle { slot: Arc::new(Slot(UnsafeCell::new(None))), index: usize::MAX, overridden: Some(overridden) };
    }
    let slot = Arc::new(Slot(UnsafeCell::new(None)));
    let s2 = slot.clone();
    let index = model::add_task(Box::pin(async move {
        let v = future.await;
        unsafe { *s2.0.get() = Some(v) };
    }));
    JoinHandle { slot, index, overridden: None }
}

pub fn block_in_place<F, R>(f: F) -> R
where
    F: FnOnce() -> R,
{
    f()
}

pub async fn yield_now() {
    let mut y = false;
    std::future::poll_fn(|_| {
        if y {
            Poll::Ready(())
        } else {
            y = true;
            Poll::Pending
        }
    })
    .await
}

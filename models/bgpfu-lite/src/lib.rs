//! Verification model of `bgpfu::RpslEvaluator` (agent build only).
//!
//! Connecting and evaluating answer from a script the harness sets: per pool expression either
//! `Err` (IRR error / unknown set / unsupported construct) or `Ok(ranges)`.  What an unknown
//! as-set evaluates to in the real library is behaviour of irrc/rpsl and is *assumed* here
//! (DESIGN.md, C03/C11).
use ip::{concrete::PrefixRange, Ipv4, Ipv6};
use rpsl::expr::MpFilterExpr;

#[derive(Debug, Clone, Copy, PartialEq, Eq)]
pub enum Error {
    Irr,
    Evaluation,
    AcquireConnection,
}

impl std::fmt::Display for Error {
    fn fmt(&self, f: &mut std::fmt::Formatter<'_>) -> std::fmt::Result {
        f.write_str("bgpfu error (model)")
    }
}
impl std::error::Error for Error {}

pub mod model {
    use super::*;

    pub const MAX_EXPRS: usize = 4;
    pub const MAX_RANGES: usize = 3;

    /// Outcome of evaluating pool expression `i`.
    #[derive(Clone)]
    pub struct Outcome {
        pub fails: bool,
        pub v4: [Option<PrefixRange<Ipv4>>; MAX_RANGES],
        pub v6: [Option<PrefixRange<Ipv6>>; MAX_RANGES],
    }

    impl Outcome {
        pub const EMPTY: Self = Self { fails: false, v4: [const { None }; MAX_RANGES], v6: [const { None }; MAX_RANGES] };
    }

    pub struct Script {
        pub connect_fails: bool,
        pub outcome: [Outcome; MAX_EXPRS],
        pub evaluations: usize,
    }

    pub(crate) static mut SCRIPT: Script = Script { connect_fails: false, outcome: [const { Outcome::EMPTY }; MAX_EXPRS], evaluations: 0 };

    pub fn set_connect_fails(on: bool) {
        unsafe { SCRIPT.connect_fails = on }
    }
    pub fn set_outcome(i: usize, o: Outcome) {
        unsafe { SCRIPT.outcome[i % MAX_EXPRS] = o }
    }
    pub fn evaluations() -> usize {
        unsafe { SCRIPT.evaluations }
    }
}

#[derive(Debug)]
pub struct RpslEvaluator {
    _priv: (),
}

/// One address family's part of an evaluation result.
pub struct Part<A: ip::Afi> {
    ranges: [Option<PrefixRange<A>>; model::MAX_RANGES],
}

impl<A: ip::Afi> Part<A> {
    /// stands for `ip::traits::PrefixSet::ranges`
    pub fn ranges(&self) -> impl Iterator<Item = PrefixRange<A>> + '_ {
        self.ranges.iter().filter_map(|r| r.clone())
    }
}

pub struct EvalSet {
    v4: Part<Ipv4>,
    v6: Part<Ipv6>,
}

impl EvalSet {
    pub fn as_partitions(&self) -> (&Part<Ipv4>, &Part<Ipv6>) {
        (&self.v4, &self.v6)
    }
}

impl RpslEvaluator {
    pub fn new(_host: &str, _port: u16) -> Result<Self, Error> {
        if unsafe { model::SCRIPT.connect_fails } {
            Err(Error::Irr)
        } else {
            Ok(Self { _priv: () })
        }
    }

    pub fn evaluate(&mut self, expr: MpFilterExpr) -> Result<EvalSet, Error> {
        unsafe {
            let s = &mut *std::ptr::addr_of_mut!(model::SCRIPT);
            s.evaluations += 1;
            let o = s.outcome[expr.pool_index() as usize % model::MAX_EXPRS].clone();
            if o.fails {
                Err(Error::Evaluation)
            } else {
                Ok(EvalSet { v4: Part { ranges: o.v4 }, v6: Part { ranges: o.v6 } })
            }
        }
    }
}

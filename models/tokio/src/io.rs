//! `tokio::io` model over the scripted stream in [`crate::model`].
use std::future::Future;
use std::io;
use std::pin::Pin;
use std::task::{Context, Poll};

use bytes::BufMut;

use crate::model::{self, ReadOutcome, Yield};

/// Model read primitive: one call = one `read` on the underlying stream.
pub trait AsyncRead {
    /// Append what one read delivers to `out`; `Ok(0)` is end of stream.
    fn poll_read_model(&mut self, out: &mut dyn FnMut(&[u8])) -> Poll<io::Result<usize>>;
}

pub trait AsyncWrite {
    fn poll_write_model(&mut self, data: &[u8]) -> Poll<io::Result<usize>>;
    fn poll_flush_model(&mut self) -> Poll<io::Result<()>> {
        Poll::Ready(Ok(()))
    }
}

/// The scripted connection: every stream-like model type delegates to this.
pub(crate) fn scripted_read(out: &mut dyn FnMut(&[u8])) -> Poll<io::Result<usize>> {
    match model::script_read() {
        ReadOutcome::Data(len, bytes) => {
            let n = len as usize;
            let n = if n > model::CHUNK_CAP { model::CHUNK_CAP } else { n };
            out(&bytes[..n]);
            Poll::Ready(Ok(n))
        }
        ReadOutcome::Eof => Poll::Ready(Ok(0)),
        ReadOutcome::Abort => Poll::Ready(Err(io::Error::from(io::ErrorKind::ConnectionReset))),
        ReadOutcome::Starved => Poll::Pending,
    }
}

pub(crate) fn scripted_write(data: &[u8]) -> Poll<io::Result<usize>> {
    if model::script_write(data.len()) {
        Poll::Ready(Ok(data.len()))
    } else {
        Poll::Ready(Err(io::Error::from(io::ErrorKind::BrokenPipe)))
    }
}

impl AsyncRead for &[u8] {
    fn poll_read_model(&mut self, out: &mut dyn FnMut(&[u8])) -> Poll<io::Result<usize>> {
        let n = self.len();
        out(self);
        *self = &self[n..];
        Poll::Ready(Ok(n))
    }
}

impl<T: AsyncRead + ?Sized> AsyncRead for &mut T {
    fn poll_read_model(&mut self, out: &mut dyn FnMut(&[u8])) -> Poll<io::Result<usize>> {
        (**self).poll_read_model(out)
    }
}

impl<T: AsyncWrite + ?Sized> AsyncWrite for &mut T {
    fn poll_write_model(&mut self, data: &[u8]) -> Poll<io::Result<usize>> {
        (**self).poll_write_model(data)
    }
}

pub struct ReadBuf<'a, R: ?Sized, B: ?Sized> {
    r: &'a mut R,
    b: &'a mut B,
    y: Yield,
}

impl<R: ?Sized, B: ?Sized> Unpin for ReadBuf<'_, R, B> {}

impl<R: AsyncRead + ?Sized, B: BufMut + ?Sized> Future for ReadBuf<'_, R, B> {
    type Output = io::Result<usize>;
    fn poll(mut self: Pin<&mut Self>, _cx: &mut Context<'_>) -> Poll<Self::Output> {
        if self.y.should_yield() {
            return Poll::Pending;
        }
        let this = &mut *self;
        let b = &mut *this.b;
        this.r.poll_read_model(&mut |chunk| b.put_slice(chunk))
    }
}

pub struct ReadToEnd<'a, R: ?Sized> {
    r: &'a mut R,
    v: &'a mut Vec<u8>,
    total: usize,
}

impl<R: ?Sized> Unpin for ReadToEnd<'_, R> {}

impl<R: AsyncRead + ?Sized> Future for ReadToEnd<'_, R> {
    type Output = io::Result<usize>;
    fn poll(mut self: Pin<&mut Self>, _cx: &mut Context<'_>) -> Poll<Self::Output> {
        loop {
            let this = &mut *self;
            let v = &mut *this.v;
            match this.r.poll_read_model(&mut |chunk| v.extend_from_slice(chunk)) {
                Poll::Pending => return Poll::Pending,
                Poll::Ready(Err(e)) => return Poll::Ready(Err(e)),
                Poll::Ready(Ok(0)) => return Poll::Ready(Ok(self.total)),
                Poll::Ready(Ok(n)) => self.total += n,
            }
        }
    }
}

pub trait AsyncReadExt: AsyncRead {
    fn read_buf<'a, B: BufMut + ?Sized>(&'a mut self, buf: &'a mut B) -> ReadBuf<'a, Self, B>
    where
        Self: Unpin,
    {
        ReadBuf { r: self, b: buf, y: Yield::new() }
    }
    fn read_to_end<'a>(&'a mut self, buf: &'a mut Vec<u8>) -> ReadToEnd<'a, Self>
    where
        Self: Unpin,
    {
        ReadToEnd { r: self, v: buf, total: 0 }
    }
}

impl<R: AsyncRead + ?Sized> AsyncReadExt for R {}

pub struct WriteAll<'a, W: ?Sized> {
    w: &'a mut W,
    data: &'a [u8],
    y: Yield,
}

impl<W: ?Sized> Unpin for WriteAll<'_, W> {}

impl<W: AsyncWrite + ?Sized> Future for WriteAll<'_, W> {
    type Output = io::Result<()>;
    fn poll(mut self: Pin<&mut Self>, _cx: &mut Context<'_>) -> Poll<Self::Output> {
        if self.y.should_yield() {
            return Poll::Pending;
        }
        let this = &mut *self;
        match this.w.poll_write_model(this.data) {
            Poll::Pending => Poll::Pending,
            Poll::Ready(Ok(_)) => Poll::Ready(Ok(())),
            Poll::Ready(Err(e)) => Poll::Ready(Err(e)),
        }
    }
}

pub struct Flush<'a, W: ?Sized> {
    w: &'a mut W,
}

impl<W: ?Sized> Unpin for Flush<'_, W> {}

impl<W: AsyncWrite + ?Sized> Future for Flush<'_, W> {
    type Output = io::Result<()>;
    fn poll(mut self: Pin<&mut Self>, _cx: &mut Context<'_>) -> Poll<Self::Output> {
        self.w.poll_flush_model()
    }
}

pub trait AsyncWriteExt: AsyncWrite {
    fn write_all<'a>(&'a mut self, src: &'a [u8]) -> WriteAll<'a, Self>
    where
        Self: Unpin,
    {
        WriteAll { w: self, data: src, y: Yield::new() }
    }
    fn flush(&mut self) -> Flush<'_, Self>
    where
        Self: Unpin,
    {
        Flush { w: self }
    }
}

impl<W: AsyncWrite + ?Sized> AsyncWriteExt for W {}

/// `tokio::io::split`: both halves talk to the scripted connection, so the model does not
/// keep the stream itself alive in a shared cell.
#[derive(Debug)]
pub struct ReadHalf<T> {
    _t: std::marker::PhantomData<T>,
}
#[derive(Debug)]
pub struct WriteHalf<T> {
    _t: std::marker::PhantomData<T>,
}

unsafe impl<T> Send for ReadHalf<T> {}
unsafe impl<T> Sync for ReadHalf<T> {}
unsafe impl<T> Send for WriteHalf<T> {}
unsafe impl<T> Sync for WriteHalf<T> {}
impl<T> Unpin for ReadHalf<T> {}
impl<T> Unpin for WriteHalf<T> {}

pub fn split<T: AsyncRead + AsyncWrite>(stream: T) -> (ReadHalf<T>, WriteHalf<T>) {
    std::mem::forget(stream);
    (ReadHalf { _t: std::marker::PhantomData }, WriteHalf { _t: std::marker::PhantomData })
}

impl<T> AsyncRead for ReadHalf<T> {
    fn poll_read_model(&mut self, out: &mut dyn FnMut(&[u8])) -> Poll<io::Result<usize>> {
        scripted_read(out)
    }
}

impl<T> AsyncWrite for WriteHalf<T> {
    fn poll_write_model(&mut self, data: &[u8]) -> Poll<io::Result<usize>> {
        scripted_write(data)
    }
}

//! C03 / C15 (compare step): which policies get an update, a delete, or nothing.
//! Child module of `policies`.
use super::*;
use rpsl::expr::MpFilterExpr;

/// evaluated-map entry codes: 0 = not a candidate, 1 = candidate whose evaluation failed
/// (`ranges: None`), 2 = candidate evaluated (to empty sets here; C03/C15 do not depend on the
/// ranges)
fn evaluated_entry(code: u8, name: &'static str, expr: u8) -> Option<(Name, Evaluated)> {
    match code {
        0 => None,
        1 => Some((Name::new(name), Evaluated { filter_expr: MpFilterExpr(expr), ranges: None })),
        _ => Some((Name::new(name), Evaluated { filter_expr: MpFilterExpr(expr), ranges: Some((Ranges::default(), Ranges::default())) })),
    }
}

fn installed_entry(present: bool, name: &'static str) -> Option<(Name, Installed)> {
    if present {
        Some((Name::new(name), Installed { ipv4: Ranges::default(), ipv6: Ranges::default() }))
    } else {
        None
    }
}

const NONE_E: Option<(Name, Evaluated)> = None;
const NONE_I: Option<(Name, Installed)> = None;

/// what `compare` emitted for `name`: 0 nothing, 1 update, 2 delete, 3 more than one entry
fn emitted(updates: &Updates<'_>, name: &str) -> u8 {
    let mut r = 0u8;
    for u in &updates.inner {
        let (n, code) = match u {
            Update::Delete { name } => (name, 2u8),
            Update::Update { name, .. } => (name, 1u8),
        };
        if n.as_ref() == name {
            r = if r == 0 { code } else { 3 };
        }
    }
    r
}

/// C03 + C15 at the compare step, two policies `a` and `b`, each in every combination of
/// {not a candidate, candidate with failed evaluation, candidate evaluated} x {installed, not
/// installed}, for every iteration order of the name set:
/// * a candidate whose evaluation failed gets neither an update nor a delete (C03);
/// * a delete is emitted exactly for installed policies that are no longer candidates (C03);
/// * an evaluated candidate gets exactly one update (C01 case split);
/// * what is emitted for `a` does not depend on `b`'s state (C15).
#[kani::proof]
#[kani::unwind(6)]
fn c03_compare_case_split() {
    ::vcollections::set_nondet_order(false);
    let ea: u8 = kani::any();
    kani::assume(ea < 3);
    let eb: u8 = kani::any();
    kani::assume(eb < 3);
    let ia: bool = kani::any();
    let ib: bool = kani::any();
    let evaluated = Policies::<Evaluated> {
        map: HashMap::from_slots([
            evaluated_entry(ea, "a", 0), evaluated_entry(eb, "b", 1), NONE_E, NONE_E,
        ]),
    };
    let installed = Policies::<Installed> {
        map: HashMap::from_slots([
            installed_entry(ia, "a"), installed_entry(ib, "b"), NONE_I, NONE_I,
        ]),
    };
    let updates = evaluated.compare(&installed);
    let want = |e: u8, i: bool| -> u8 {
        match (e, i) {
            (2, _) => 1,      // evaluated: one update (create or modify)
            (1, _) => 0,      // evaluation failed: leave alone
            (_, true) => 2,   // installed but no longer a candidate: delete
            _ => 0,
        }
    };
    let got_a = emitted(&updates, "a");
    let got_b = emitted(&updates, "b");
    assert!(got_a == want(ea, ia), "C03/C15: wrong action for policy a (failed evaluation must leave it alone; delete only if installed and not a candidate)");
    assert!(got_b == want(eb, ib), "C03/C15: wrong action for policy b");
    assert!(updates.inner.len() == (got_a != 0) as usize + (got_b != 0) as usize, "C03: an action for a policy that is neither candidate nor installed");
    kani::cover!(got_a == 2 && got_b == 1, "delete a, update b");
    kani::cover!(ea == 1 && ia && got_a == 0, "failed evaluation of an installed policy leaves it alone");
    std::mem::forget(updates);
    std::mem::forget(evaluated);
    std::mem::forget(installed);
}

/// C03 at the compare step for a single policy (every combination of {not a candidate,
/// candidate with failed evaluation, candidate evaluated} x {installed, not installed}): the
/// two-policy harness above does not fit into memory (every map lookup compares `Arc<str>` keys
/// living in heap blocks and every reference-count update is a write through a pointer with
/// several possible targets); with one name the pointers are unique.
#[kani::proof]
#[kani::unwind(6)]
fn c03_compare_single_policy() {
    let ea: u8 = kani::any();
    kani::assume(ea < 3);
    let ia: bool = kani::any();
    let evaluated = Policies::<Evaluated> { map: HashMap::from_slots([evaluated_entry(ea, "a", 0), NONE_E, NONE_E, NONE_E]) };
    let installed = Policies::<Installed> { map: HashMap::from_slots([installed_entry(ia, "a"), NONE_I, NONE_I, NONE_I]) };
    let updates = evaluated.compare(&installed);
    let want: u8 = match (ea, ia) {
        (2, _) => 1,
        (1, _) => 0,
        (_, true) => 2,
        _ => 0,
    };
    let got = emitted(&updates, "a");
    assert!(got == want, "C03: wrong action (a failed evaluation must leave the policy alone; delete only if installed and not a candidate)");
    assert!(updates.inner.len() == (got != 0) as usize, "C03: more than one action for one policy");
    kani::cover!(ea == 1 && ia && got == 0, "failed evaluation of an installed policy leaves it alone");
    kani::cover!(got == 2, "delete");
    std::mem::forget(updates);
    std::mem::forget(evaluated);
    std::mem::forget(installed);
}

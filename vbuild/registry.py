"""Registry of properties -> Kani harnesses, bounds, loop rules (see DESIGN.md §5)."""

DEFAULT_TIMEOUT = {"quick": 420, "thorough": 2400}

# regex on the demangled function name (or the loop id) -> unwind bound for that loop
DEFAULT_LOOP_RULES = {
    r"^memcmp\.": 43,
}

FRAMING_LOOPS = {
    r"Finder.*find\.0$": 7,      # inner needle comparison (needle = 6 bytes)
    r"Finder.*find\.1$": 12,     # outer scan over the buffer (<= 16 bytes -> <= 11 start positions)
    r"RecvHandle.*recv": 6,       # the read loop: <= 4 chunks / 1 chunk + 2 close answers, + exit
    r"run_bounded": 2,
}

COMMON_ASSUMPTIONS = [
    "verification build: /repo sources copied verbatim; only `std::collections` paths rewritten to the Vec-backed vcollections model; harness modules appended under cfg(kani)",
    "model crates in the trusted base: verif-tracing (no-op macros), memchr (naive loops), quick-xml (event tapes, interned names), tokio (leaf futures over model state), tokio-rustls / russh / russh-keys (type shells over scripted streams), vcollections",
    "Kani --no-memory-safety-checks: pointer-validity checks are off (bgpfu-rs contains no unsafe code; model crates' unsafe blocks are trusted); panics, arithmetic overflow, slice bounds and unwinding assertions stay on",
    "bounded: every claim holds only within the bounds listed per harness; unwinding assertions make a too-small bound fail instead of truncating",
]

SSH_LOOPS = {
    r"Finder.*find\.0$": 7,
    r"Finder.*find\.1$": 12,
    r"Ssh.*connect": 8,           # pump loop: <= 4 data packets + 2 close answers + exit
    r"run_bounded": 3,
}

NETCONF = "bgpfu-netconf"

CHECKS = {}


def harness(name, package=NETCONF, **kw):
    d = {"name": name, "package": package}
    d.update(kw)
    return d


CHECKS["C06"] = {
    "crates": ["netconf"],
    "explanation": "tls/junos_local Receiver::recv and the SSH pump loop are executed symbolically over every 2-message stream with "
                   "payloads of 0..2 bytes over {x,],>} and every segmentation into 1..4 non-empty chunks (all cut positions, including the "
                   "five inside each delimiter, and several messages per chunk).",
    "assumptions": ["reads deliver exactly the scripted chunks; TLS record / SSH packet reassembly below read_buf / ChannelMsg::Data is not modelled"],
    "harnesses": [
        harness("c06_tls_segmentation", functions=["transport::tls::Receiver::recv", "bytes::BytesMut", "memchr::memmem::Finder::find (model)"],
                bounds="2 messages, payload<=2 bytes over {x,],>}, <=4 chunks, 1 poll per recv (every read is answered at once), 32-byte buffer", loops=FRAMING_LOOPS, stubbing=True),
        harness("c06_junos_local_segmentation", functions=["transport::junos_local::Receiver::recv", "bytes::BytesMut", "memchr::memmem::Finder::find (model)"],
                bounds="as c06_tls_segmentation", loops=FRAMING_LOOPS, stubbing=True),
        harness("c06_ssh_segmentation", functions=["transport::ssh::Ssh::connect (pump task)", "transport::ssh::Receiver::recv", "tokio::select!/mpsc (model)"],
                bounds="2 messages, payload<=2 bytes, <=4 ChannelMsg::Data packets, one activation of the pump task", loops=SSH_LOOPS, stubbing=True,
                tiers=["thorough"], timeout={"thorough": 5400}, mem_gb=30),
    ],
}

CHECKS["C07"] = {
    "crates": ["netconf"],
    "explanation": "",
    "assumptions": [],
    "harnesses": [
        harness("c07_tls_disconnect", functions=["transport::tls::Receiver::recv"],
                bounds="strict prefix of one message then Eof/Abort, 1 poll, reads after close answered at most twice then Pending (overrun flag), 32-byte buffer", loops=FRAMING_LOOPS, stubbing=True),
        harness("c07_junos_local_disconnect", functions=["transport::junos_local::Receiver::recv"], bounds="as c07_tls_disconnect", loops=FRAMING_LOOPS, stubbing=True),
        harness("c07_ssh_disconnect", functions=["transport::ssh::Ssh::connect (pump task)", "transport::ssh::Receiver::recv"],
                bounds="strict prefix of one message, then Eof+gone / Close+gone / gone; wait() answers None at most twice then Pending (overrun flag)", loops=SSH_LOOPS, stubbing=True,
                tiers=["thorough"], timeout={"thorough": 5400}, mem_gb=30),
    ],
}

C09_BOUNDS = "every subset of 13 capability bits (with every combination of the url schemes file/ftp/http) x every parameter choice of the operation, decided in one query"
CHECKS["C09"] = {
    "crates": ["netconf"],
    "explanation": "Operation::new and every builder method / finish() of each operation are executed symbolically against a Context whose "
                   "server capability set is built from 13 symbolic bits; the result (request built / refused) is compared with the RFC 6241 "
                   "section 8 requirement table written independently in the harness.",
    "assumptions": ["observation point is Operation::new (what Session::rpc calls before anything is written); that rpc() writes iff "
                    "Operation::new succeeded is covered by the C05 session harnesses",
                    "edit-config with target=startup is accepted with :startup as the code does (RFC 6241 8.7.5 does not list it; not decided here)",
                    "URL parsing (iri-string) runs on three concrete URLs only"],
    "harnesses": [
        harness(n, functions=f, bounds=C09_BOUNDS, target="c09_%d" % (i % 8), timeout={"quick": 900, "thorough": 2400}) for i, (n, f) in enumerate([
            ("c09_get_op", ["Get::new", "get::Builder::filter/finish", "Filter::try_use"]),
            ("c09_get_config_running", ["GetConfig::new", "get_config::Builder::source/filter/finish", "Datastore::try_as_source", "Filter::try_use"]),
            ("c09_get_config_candidate", ["get_config::Builder::source/filter/finish"]),
            ("c09_get_config_startup", ["get_config::Builder::source/filter/finish"]),
            ("c09_lock_unlock", ["Lock::new", "Unlock::new", "lock::Builder::target/finish", "Datastore::try_as_lock_target"]),
            ("c09_commit_plain", ["Commit::new", "commit::Builder::confirmed/confirm_timeout/finish"]),
            ("c09_commit_persist", ["commit::Builder::persist/finish"]),
            ("c09_commit_persist_id", ["commit::Builder::persist_id/finish"]),
            ("c09_commit_persist_both", ["commit::Builder::persist/persist_id/finish"]),
            ("c09_simple_ops", ["CancelCommit::new", "DiscardChanges::new", "KillSession::new", "CloseSession::new"]),
            ("c09_validate", ["Validate::new", "validate::Builder::source/config/finish", "Datastore::try_as_source"]),
            ("c09_delete_config", ["DeleteConfig::new", "delete_config::Builder::target/finish", "Datastore::try_as_target"]),
            ("c09_copy_config_to_running", ["CopyConfig::new", "copy_config::Builder::target/source/config/finish"]),
            ("c09_copy_config_to_candidate", ["copy_config::Builder::target/source/config/finish"]),
            ("c09_copy_config_to_startup", ["copy_config::Builder::target/source/config/finish"]),
            ("c09_edit_config_target", ["EditConfig::new", "edit_config::Builder::target/config/finish", "Datastore::try_as_target"]),
            ("c09_edit_config_test_option", ["edit_config::Builder::test_option", "TestOption::try_use"]),
            ("c09_edit_config_error_option", ["edit_config::Builder::error_option", "ErrorOption::try_use"]),
            ("c09_url_file", ["Url::try_new", "edit_config::Builder::url", "delete_config::Builder::url"]),
            ("c09_url_ftp", ["Url::try_new"]),
            ("c09_url_http", ["Url::try_new"]),
            ("c09_operation_new_gate", ["Operation::new (trait default method, instantiated for DiscardChanges)"]),
            ("c09_junos_ops", ["OpenConfiguration::new", "CloseConfiguration::new", "LockConfiguration::new", "UnlockConfiguration::new", "CommitConfiguration::new"]),
        ])
    ],
}

READER_LOOPS = {
    r"ReadXml.*read_xml": 7,      # reader loops: <= 2 cells per item + End + exit
    r"seek_end": 4,               # leaf content: text, end (+1)
    r"name_id_of": 14,
    r"drop_glue.*InfoElement": 1,  # error-info is always empty in these harnesses (asserted by the unwinding assertion)
    r"drop_glue": 4,
    r"is_whitespace": 20,
    r"from_ascii": 5,
}

CHECKS["C08"] = {
    "crates": ["netconf"],
    "explanation": "Each reply reader (EmptyReply, DataReply<Opaque>, BareReply, load_configuration::Reply) is executed symbolically over every "
                   "reply of up to 3 grammar items (ok as <ok/> or <ok></ok>, rpc-error with severity error or warning, comment, unexpected "
                   "element, <ok/> in a foreign namespace, <data>, stray text), compositional: rpc::Error::read_xml is replaced by a summary "
                   "stub in the outer-reader harnesses and checked on its own in c08_rpc_error_reader.",
    "assumptions": ["event-level: the quick-xml model replays event tapes; byte-level tokenisation is quick-xml's",
                    "summary stub for rpc::Error::read_xml (consumes the element, returns the severity the tape declares); justified by c08_rpc_error_reader"],
    "harnesses": [
        harness("c08_empty_reply", functions=["EmptyReply::read_xml"], bounds="<=2 items from the 9-item reply grammar", deep_bounds="<=3 items", deep=True, loops=READER_LOOPS, stubbing=True, timeout={"quick": 600, "thorough": 5400}, mem_gb=30),
        harness("c08_data_reply", functions=["DataReply::<Opaque>::read_xml", "Opaque::read_xml"], bounds="<=2 items", deep_bounds="<=3 items", deep=True, loops=READER_LOOPS, stubbing=True, timeout={"quick": 600, "thorough": 5400}, mem_gb=30),
        harness("c08_bare_reply", functions=["junos::BareReply::read_xml"], bounds="<=2 items", deep_bounds="<=3 items", deep=True, loops=READER_LOOPS, stubbing=True, timeout={"quick": 600, "thorough": 5400}, mem_gb=30),
        harness("c08_load_configuration_reply", functions=["junos::load_configuration::Reply::read_xml"],
                bounds="<load-configuration-results> present or absent, <=2 inner items (ok, ok pair, rpc-error error/warning, load-error-count 0..3, comment, other)",
                deep_bounds="... <=3 inner items", deep=True, loops=READER_LOOPS, stubbing=True, timeout={"quick": 900, "thorough": 5400}, mem_gb=30),
        harness("c08_rpc_error_reader", functions=["rpc::Error::read_xml", "Type/Tag/Severity::from_str"],
                bounds="three mandatory children in all 6 orders, each present/absent, 4 severity texts", loops=READER_LOOPS, timeout={"quick": 900, "thorough": 3000}),
    ],
}

# Properties whose checks are registered in MANIFEST.json (the others stay in the registry for
# development but are listed under not_applicable until their quick tier is reliably green).
CLAIMED = ["C06", "C07"]

NOT_APPLICABLE = {
    "C11": "semantics reside in the third-party crates rpsl (pest parser + evaluator), generic-ip (prefix tries) and irrc (TCP client); bgpfu's own 240 lines only wire resolvers together. Kani cannot get through hash maps, tries of depth 128, a pest parser or sockets, and modelling all three would leave nothing of the property to check (DESIGN.md §6)",
    "C17": "the state in question (response/query alignment) belongs to irrc::Connection and rpsl's evaluator; bgpfu contributes a two-line take/restore. With irrc replaced by a model the property would be a statement about the model (DESIGN.md §6)",
}
PENDING = "not claimed yet in this round: the Kani harness family for this property is not finished (see DESIGN.md, status section)"
for _i in range(1, 21):
    NOT_APPLICABLE.setdefault("C%02d" % _i, PENDING)

//! C12 (hello reader).  Child module of `message::hello`.
use super::*;
use quick_xml::events::BytesStart;
use quick_xml::tape::{self, ns, AttrName, Cell, Tape, TextEntry};

static NAMES: [&[u8]; 5] = [b"", b"hello", b"capabilities", b"capability", b"session-id"];
static TEXTS: [TextEntry; 10] = [
    TextEntry::plain(""),
    TextEntry::plain("urn:ietf:params:netconf:base:1.0"),
    TextEntry::plain("urn:ietf:params:netconf:base:1.1"),
    TextEntry::plain("1"),
    TextEntry::plain("4294967295"),
    TextEntry::plain("0"),
    TextEntry::plain("4294967296"),
    TextEntry::plain("-1"),
    TextEntry::plain("x"),
    TextEntry::plain(" c "),
];
static ATTRS: [AttrName; 1] = [AttrName { qname: b"x", local: b"x", ns: ns::UNBOUND }];

const B: u8 = ns::BASE;

/// Summary of `<Capability as FromStr>::from_str` for the two capability texts of this harness
/// (identified by pointer: they are the table's `&'static str`s); the real function — URI
/// validation by iri-string plus the component match — is checked on concrete URIs in
/// `c12_capability_from_str`.
pub fn stub_capability_from_str(s: &str) -> Result<Capability, ReadError> {
    if std::ptr::eq(s.as_ptr(), TEXTS[1].raw.as_ptr()) {
        Ok(Capability::Base(Base::V1_0))
    } else if std::ptr::eq(s.as_ptr(), TEXTS[2].raw.as_ptr()) {
        Ok(Capability::Base(Base::V1_1))
    } else {
        Ok(Capability::Candidate)
    }
}

/// C12: the real `Capability::from_str` on every standard capability URI, on the Junos one, on
/// an unknown URI and on a string that is not a URI (all concrete).
#[kani::proof]
#[kani::unwind(80)]
fn c12_capability_from_str() {
    use std::str::FromStr;
    let cases: [(&str, u8); 8] = [
        ("urn:ietf:params:netconf:base:1.0", 0),
        ("urn:ietf:params:netconf:base:1.1", 1),
        ("urn:ietf:params:netconf:capability:candidate:1.0", 2),
        ("urn:ietf:params:netconf:capability:xpath:1.0", 3),
        ("urn:ietf:params:netconf:capability:url:1.0?scheme=http,ftp", 4),
        ("http://xml.juniper.net/netconf/junos/1.0", 5),
        ("urn:ietf:params:xml:ns:netconf:base:1.0", 6),
        ("not a uri", 7),
    ];
    let mut i = 0;
    while i < 8 {
        let r = Capability::from_str(cases[i].0);
        let ok = match (&r, cases[i].1) {
            (Ok(Capability::Base(Base::V1_0)), 0) => true,
            (Ok(Capability::Base(Base::V1_1)), 1) => true,
            (Ok(Capability::Candidate), 2) => true,
            (Ok(Capability::XPath), 3) => true,
            (Ok(Capability::Url(s)), 4) => s.len() == 2,
            #[cfg(feature = "junos")]
            (Ok(Capability::JunosXmlManagementProtocol), 5) => true,
            (Ok(Capability::Unknown(_)), 6) => true,
            (Err(_), 7) => true,
            _ => false,
        };
        assert!(ok, "C12: capability URI parsed into the wrong capability");
        std::mem::forget(r);
        i += 1;
    }
    kani::cover!(true, "reached");
}

/// C12: `ServerHello::read_xml` over every hello built from: capabilities element present /
/// absent with the :base:1.0 and :base:1.1 capabilities each present / absent; session-id
/// absent, present once or twice, with text from {1, 4294967295, 0, 4294967296, -1, x}.
/// Accepted iff well-formed with exactly... a valid non-zero 32-bit id; reported id and base
/// capabilities are those of the hello.
#[kani::proof]
#[kani::unwind(8)]
#[kani::stub(<crate::capabilities::Capability as std::str::FromStr>::from_str, stub_capability_from_str)]
fn c12_server_hello_reader() {
    tape::set_tables(&NAMES, &TEXTS, &ATTRS);
    let caps_present: bool = kani::any();
    let b10: bool = kani::any();
    let b11: bool = kani::any();
    let sid_count: u8 = kani::any();
    kani::assume(sid_count <= 2);
    let sid_text: u8 = kani::any();
    kani::assume(sid_text >= 3 && sid_text <= 8);
    let sid_first: bool = kani::any();
    let mut t = Tape::EMPTY;
    let push_sid = |t: &mut Tape| {
        t.push(Cell::start(B, 4));
        t.push(Cell::text(sid_text));
        t.push(Cell::end(B, 4));
    };
    if sid_first && sid_count >= 1 {
        push_sid(&mut t);
    }
    if caps_present {
        t.push(Cell::start(B, 2));
        if b10 {
            t.push(Cell::start(B, 3));
            t.push(Cell::text(1));
            t.push(Cell::end(B, 3));
        }
        if b11 {
            t.push(Cell::start(B, 3));
            t.push(Cell::text(2));
            t.push(Cell::end(B, 3));
        }
        t.push(Cell::end(B, 2));
    }
    if !sid_first && sid_count >= 1 {
        push_sid(&mut t);
    }
    if sid_count == 2 {
        push_sid(&mut t);
    }
    t.push(Cell::end(B, 1));
    tape::register(0, t);
    let mut reader = NsReader::from_str(tape::input_for(0));
    let _ = reader.trim_text(true);
    let start = BytesStart::from_id(1);
    let res = ServerHello::read_xml(&mut reader, &start);
    let valid_id = sid_text == 3 || sid_text == 4;
    match &res {
        Ok(h) => {
            assert!(caps_present, "C12 hello: accepted without <capabilities>");
            assert!(sid_count == 1, "C12 hello: accepted with a missing or duplicated <session-id>");
            assert!(valid_id, "C12 hello: accepted with an invalid session-id (zero, out of range, negative or not a number)");
            let want: u32 = if sid_text == 3 { 1 } else { 4294967295 };
            assert!(h.session_id() == SessionId::new(want).unwrap(), "C12 hello: reported session-id differs from the hello's");
            let has10 = h.capabilities.iter().any(|c| matches!(c, Capability::Base(Base::V1_0)));
            let has11 = h.capabilities.iter().any(|c| matches!(c, Capability::Base(Base::V1_1)));
            assert!(has10 == b10 && has11 == b11, "C12 hello: reported base capabilities differ from the hello's");
        }
        Err(_) => {
            assert!(!(caps_present && sid_count == 1 && valid_id), "C12 hello: a well-formed hello with a valid session-id was rejected");
        }
    }
    kani::cover!(res.is_ok() && b10 && b11, "hello with both base versions accepted");
    kani::cover!(res.is_err() && sid_text == 5, "session-id 0 rejected");
    kani::cover!(res.is_err() && sid_count == 2, "duplicated session-id rejected");
    std::mem::forget(res);
}

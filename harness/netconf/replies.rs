//! C08 / C13 / C14 harnesses for the reply readers.  Child module of `message::rpc`.
use super::*;
use crate::verif_support::*;
use quick_xml::tape::{self, Tape};
use quick_xml::events::BytesStart;

fn reader_for<'a>(slot: u8) -> NsReader<&'a [u8]> {
    let mut r = NsReader::from_str(tape::input_for(slot));
    let _ = r.trim_text(true);
    r
}

/// Build `[item]* </rpc-reply>` (the content a reply reader sees after `from_xml` consumed
/// the start tag) from `N` symbolic items, `n` of which are used.
fn content_tape<const N: usize>(items: &[Item; N], n: usize) -> Tape {
    let mut t = Tape::EMPTY;
    let mut i = 0;
    while i < N {
        if i < n {
            push_item(&mut t, items[i]);
        }
        i += 1;
    }
    reply_close(&mut t);
    t
}

const N_ITEMS: usize = 2;

use crate::message::rpc::error::verif_error as ve;

/// What the reply grammar says about a sequence of items.
struct Facts {
    has_error_sev_error: bool,
    n_rpc_errors: usize,
    sev: [u8; N_ITEMS],
    has_ok: bool,
    has_data: bool,
}

fn facts(items: &[Item; N_ITEMS], n: usize) -> Facts {
    let mut f = Facts { has_error_sev_error: false, n_rpc_errors: 0, sev: [0; N_ITEMS], has_ok: false, has_data: false };
    let mut i = 0;
    while i < N_ITEMS {
        if i < n {
            f.has_error_sev_error |= items[i].is_error_severity_error();
            if items[i].is_rpc_error() {
                f.sev[f.n_rpc_errors] = if items[i] == Item::ErrWarning { ve::SEV_WARNING } else { ve::SEV_ERROR };
                f.n_rpc_errors += 1;
            }
            f.has_ok |= items[i] == Item::Ok || items[i] == Item::OkPair;
            f.has_data |= items[i] == Item::Data;
        }
        i += 1;
    }
    f
}

fn stubbed_content_tape(items: &[Item; N_ITEMS], n: usize) -> Tape {
    let mut t = Tape::EMPTY;
    let mut i = 0;
    while i < N_ITEMS {
        if i < n {
            push_item_stubbed(&mut t, items[i]);
        }
        i += 1;
    }
    reply_close(&mut t);
    t
}

fn errs_match(errs: &Errors, f: &Facts) -> bool {
    if errs.len() != f.n_rpc_errors {
        return false;
    }
    let mut i = 0;
    let mut ok = true;
    while i < N_ITEMS {
        if i < f.n_rpc_errors {
            ok &= ve::nth_severity(errs, i) == Some(f.sev[i]);
        }
        i += 1;
    }
    ok
}

fn any_items() -> ([Item; N_ITEMS], usize) {
    let items: [Item; N_ITEMS] = [Item::Ok; N_ITEMS].map(|_| Item::any());
    let n: usize = kani::any();
    kani::assume(n <= N_ITEMS);
    (items, n)
}

/// C08, `EmptyReply` (close-session, edit-config, lock, commit, ...): every reply of up to 3
/// grammar items.
#[kani::proof]
#[kani::unwind(10)]
#[kani::stub(<crate::message::rpc::Error as crate::message::ReadXml>::read_xml, crate::message::rpc::error::verif_error::stub_read_xml)]
#[kani::stub(crate::message::rpc::Errors::new, crate::message::rpc::error::verif_error::stub_errors_new)]
#[kani::stub(crate::message::rpc::Errors::push, crate::message::rpc::error::verif_error::stub_errors_push)]
fn c08_empty_reply() {
    use_reply_tables();
    let (items, n) = any_items();
    tape::register(0, stubbed_content_tape(&items, n));
    let mut reader = reader_for(0);
    let start = BytesStart::from_id(n::RPC_REPLY);
    let res = EmptyReply::read_xml(&mut reader, &start);
    let f = facts(&items, n);
    match &res {
        Ok(EmptyReply::Ok) => {
            assert!(!f.has_error_sev_error, "C08 EmptyReply: a reply carrying rpc-error(error) was reported as success");
            assert!(f.has_ok, "C08 EmptyReply: success reported without <ok/>");
        }
        Ok(EmptyReply::Errs(errs)) => {
            assert!(errs_match(errs, &f), "C08 EmptyReply: reported errors are not exactly the reply's rpc-errors, in order");
        }
        Err(_) => {}
    }
    kani::cover!(matches!(res, Ok(EmptyReply::Ok)), "some reply is Ok");
    kani::cover!(matches!(res, Ok(EmptyReply::Errs(_))) && f.n_rpc_errors == 2, "some reply carries two errors");
    kani::cover!(matches!(res, Ok(EmptyReply::Errs(_))) && f.sev[0] == ve::SEV_WARNING, "a warning is reported as an error list");
    kani::cover!(res.is_err(), "some reply is a read error");
    std::mem::forget(res);
}

/// Summary of `Opaque::read_xml` (two lines: `read_text` to the end tag, `into()`): consumes the
/// element and returns a fixed value.  Building an `Arc<str>` from a text of symbolic length is
/// what makes the real function expensive; the real one runs in `c08_opaque_reader`.
pub fn stub_opaque_read_xml(reader: &mut NsReader<&[u8]>, start: &BytesStart<'_>) -> Result<crate::message::rpc::operation::Opaque, ReadError> {
    let _ = reader.read_to_end(start.to_end().name())?;
    Ok(crate::message::rpc::operation::Opaque::from("x"))
}

/// The real `Opaque::read_xml` on `<data>x</data>` and on an unterminated `<data>`.
#[kani::proof]
#[kani::unwind(10)]
fn c08_opaque_reader() {
    use crate::message::rpc::operation::Opaque;
    use_reply_tables();
    let closed: bool = kani::any();
    let mut t = Tape::EMPTY;
    t.push(cells::TEXT_X);
    if closed {
        t.push(cells::DATA_END);
        t.push(cells::OK);
    }
    tape::register(0, t);
    let mut reader = reader_for(0);
    let start = BytesStart::from_id(n::DATA);
    let res = Opaque::read_xml(&mut reader, &start);
    match &res {
        Ok(o) => {
            assert!(closed && &**o == "x", "C08 Opaque: wrong content");
            match reader.read_resolved_event() {
                Ok((_, quick_xml::events::Event::Empty(_))) => {}
                _ => assert!(false, "C08 Opaque: reader did not stop after </data>"),
            }
        }
        Err(_) => assert!(!closed, "C08 Opaque: well-formed <data> rejected"),
    }
    kani::cover!(res.is_ok(), "accepted");
    kani::cover!(res.is_err(), "rejected");
    std::mem::forget(res);
}

/// C08, `DataReply<Opaque>` (get, get-config).
#[kani::proof]
#[kani::unwind(10)]
#[kani::stub(<crate::message::rpc::operation::Opaque as crate::message::ReadXml>::read_xml, stub_opaque_read_xml)]
#[kani::stub(<crate::message::rpc::Error as crate::message::ReadXml>::read_xml, crate::message::rpc::error::verif_error::stub_read_xml)]
#[kani::stub(crate::message::rpc::Errors::new, crate::message::rpc::error::verif_error::stub_errors_new)]
#[kani::stub(crate::message::rpc::Errors::push, crate::message::rpc::error::verif_error::stub_errors_push)]
fn c08_data_reply() {
    use crate::message::rpc::operation::Opaque;
    use_reply_tables();
    let (items, n) = any_items();
    tape::register(0, stubbed_content_tape(&items, n));
    let mut reader = reader_for(0);
    let start = BytesStart::from_id(n::RPC_REPLY);
    let res = DataReply::<Opaque>::read_xml(&mut reader, &start);
    let f = facts(&items, n);
    match &res {
        Ok(DataReply::Data(_)) => {
            assert!(!f.has_error_sev_error, "C08 DataReply: a reply carrying rpc-error(error) was reported as success");
            assert!(f.has_data, "C08 DataReply: success reported without <data>");
        }
        Ok(DataReply::Errs(errs)) => {
            assert!(errs_match(errs, &f), "C08 DataReply: reported errors are not exactly the reply's rpc-errors, in order");
        }
        Err(_) => {}
    }
    kani::cover!(matches!(res, Ok(DataReply::Data(_))), "some reply is Data");
    kani::cover!(matches!(res, Ok(DataReply::Errs(_))), "some reply is Errs");
    std::mem::forget(res);
}

/// C08, `BareReply` (open-/close-/lock-/unlock-configuration): success = empty reply.
#[cfg(feature = "junos")]
#[kani::proof]
#[kani::unwind(10)]
#[kani::stub(<crate::message::rpc::Error as crate::message::ReadXml>::read_xml, crate::message::rpc::error::verif_error::stub_read_xml)]
#[kani::stub(crate::message::rpc::Errors::new, crate::message::rpc::error::verif_error::stub_errors_new)]
#[kani::stub(crate::message::rpc::Errors::push, crate::message::rpc::error::verif_error::stub_errors_push)]
fn c08_bare_reply() {
    use crate::message::rpc::operation::junos::BareReply;
    use_reply_tables();
    let (items, n) = any_items();
    tape::register(0, stubbed_content_tape(&items, n));
    let mut reader = reader_for(0);
    let start = BytesStart::from_id(n::RPC_REPLY);
    let res = BareReply::read_xml(&mut reader, &start);
    let f = facts(&items, n);
    match &res {
        Ok(BareReply::Ok) => {
            assert!(f.n_rpc_errors == 0, "C08 BareReply: a reply carrying an rpc-error was reported as success");
        }
        Ok(BareReply::Errs(errs)) => {
            assert!(errs_match(errs, &f), "C08 BareReply: reported errors are not exactly the reply's rpc-errors, in order");
        }
        Err(_) => {}
    }
    kani::cover!(matches!(res, Ok(BareReply::Ok)), "some reply is Ok");
    kani::cover!(matches!(res, Ok(BareReply::Errs(_))), "some reply is Errs");
    std::mem::forget(res);
}

#[kani::proof]
fn cal_nothing() {
    let x: u8 = kani::any();
    assert!(x as u32 + 1 > 0);
}


// ---- constructors for sibling harness modules (private fields of this module) ----------------

pub(crate) fn message_id(n: usize) -> MessageId {
    MessageId(n)
}

pub(crate) fn message_id_value(m: MessageId) -> usize {
    m.0
}

/// A parked reply as `PartialReply::recv` would have produced it for the tape in `slot`.
pub(crate) fn partial_reply(id: usize, slot: u8) -> PartialReply {
    PartialReply { message_id: MessageId(id), buf: tape::input_for(slot).into() }
}

pub(crate) fn partial_reply_id(p: &PartialReply) -> usize {
    p.message_id.0
}

// =================================================================================================
// C13: XML-equivalent serialisations (event level), reply readers.

fn empty_reply_on(t: Tape) -> Result<EmptyReply, ReadError> {
    tape::register(0, t);
    let mut reader = reader_for(0);
    let start = BytesStart::from_id(n::RPC_REPLY);
    EmptyReply::read_xml(&mut reader, &start)
}

fn outcome_code(r: &Result<EmptyReply, ReadError>) -> u8 {
    match r {
        Ok(EmptyReply::Ok) => 0,
        Ok(EmptyReply::Errs(_)) => 1,
        Err(_) => 2,
    }
}

/// C13 (comments): inserting a comment before, between or after the items of a reply does
/// not change what `EmptyReply` makes of it.
#[kani::proof]
#[kani::unwind(10)]
#[kani::stub(<crate::message::rpc::Error as crate::message::ReadXml>::read_xml, crate::message::rpc::error::verif_error::stub_read_xml)]
#[kani::stub(crate::message::rpc::Errors::new, crate::message::rpc::error::verif_error::stub_errors_new)]
#[kani::stub(crate::message::rpc::Errors::push, crate::message::rpc::error::verif_error::stub_errors_push)]
fn c13_empty_reply_comment_insertion() {
    use_reply_tables();
    let item = Item::any();
    kani::assume(item != Item::Comment);
    let mut t1 = Tape::EMPTY;
    push_item_stubbed(&mut t1, item);
    reply_close(&mut t1);
    let before: bool = kani::any();
    let mut t2 = Tape::EMPTY;
    if before {
        t2.push(cells::COMMENT);
    }
    push_item_stubbed(&mut t2, item);
    if !before {
        t2.push(cells::COMMENT);
    }
    reply_close(&mut t2);
    let r1 = empty_reply_on(t1);
    let r2 = empty_reply_on(t2);
    assert!(outcome_code(&r1) == outcome_code(&r2), "C13 EmptyReply: a comment changes the outcome");
    kani::cover!(outcome_code(&r1) == 0, "ok reply");
    kani::cover!(outcome_code(&r1) == 1, "error reply");
    std::mem::forget((r1, r2));
}

/// C13 (empty-element form): `<ok/>` and `<ok></ok>` carry the same information.
#[kani::proof]
#[kani::unwind(10)]
fn c13_empty_reply_ok_element_form() {
    use_reply_tables();
    let mut t1 = Tape::EMPTY;
    push_item(&mut t1, Item::Ok);
    reply_close(&mut t1);
    let mut t2 = Tape::EMPTY;
    push_item(&mut t2, Item::OkPair);
    reply_close(&mut t2);
    let r1 = empty_reply_on(t1);
    let r2 = empty_reply_on(t2);
    assert!(outcome_code(&r1) == outcome_code(&r2), "C13 EmptyReply: <ok/> and <ok></ok> are treated differently");
    kani::cover!(outcome_code(&r1) == 0, "<ok/> accepted");
    std::mem::forget((r1, r2));
}

/// C13 (XML declaration): a reply document that starts with `<?xml ...?>` parses like one
/// without it (`ServerMsg::from_xml` for `PartialReply`).
#[kani::proof]
#[kani::unwind(10)]
fn c13_partial_reply_xml_declaration() {
    use_reply_tables();
    let mut t1 = Tape::EMPTY;
    t1.attrs[0] = cells::MSGID_101;
    t1.push(cells::REPLY_START);
    t1.push(cells::OK);
    t1.push(cells::REPLY_END);
    let mut t2 = Tape::EMPTY;
    t2.attrs[0] = cells::MSGID_101;
    t2.push(quick_xml::tape::Cell::other(quick_xml::tape::kind::DECL, 0));
    t2.push(cells::REPLY_START);
    t2.push(cells::OK);
    t2.push(cells::REPLY_END);
    tape::register(0, t1);
    tape::register(1, t2);
    let r1 = PartialReply::from_xml(tape::input_for(0));
    let r2 = PartialReply::from_xml(tape::input_for(1));
    assert!(r1.is_ok() == r2.is_ok(), "C13 rpc-reply: an XML declaration changes whether the reply is accepted");
    kani::cover!(r1.is_ok(), "reply without declaration accepted");
    std::mem::forget((r1, r2));
}

// =================================================================================================
// C14: arbitrary event sequences never panic or loop.

/// C14: `Reply::<CloseSession>::from_xml` over a tape of up to 4 *arbitrary* cells (any kind
/// including tokenizer errors and unbalanced ends, any known name, namespace and text,
/// message-id texts including huge, negative, empty and non-numeric ones): returns `Ok` or
/// `Err`; no panic, no arithmetic overflow (Kani's checks), every loop ends within the tape
/// (unwinding assertions).
#[kani::proof]
#[kani::unwind(10)]
#[kani::stub(<crate::message::rpc::Error as crate::message::ReadXml>::read_xml, crate::message::rpc::error::verif_error::stub_read_xml)]
#[kani::stub(crate::message::rpc::Errors::new, crate::message::rpc::error::verif_error::stub_errors_new)]
#[kani::stub(crate::message::rpc::Errors::push, crate::message::rpc::error::verif_error::stub_errors_push)]
fn c14_reply_arbitrary_events() {
    use crate::message::rpc::operation::CloseSession;
    use quick_xml::tape::{AttrCell, Cell};
    use_reply_tables();
    let mut t = Tape::EMPTY;
    let idt: u8 = kani::any();
    kani::assume(idt < 16);
    t.attrs[0] = AttrCell::new(a::MESSAGE_ID, idt);
    let n: usize = kani::any();
    kani::assume(n <= 4);
    let mut i = 0;
    while i < 4 {
        if i < n {
            let kind: u8 = kani::any();
            kani::assume(kind <= 9);
            let nsc: u8 = kani::any();
            kani::assume(nsc <= 4 || nsc == 255);
            let name: u8 = kani::any();
            kani::assume(name < 12);
            let text: u8 = kani::any();
            kani::assume(text < 16);
            let with_attr: bool = kani::any();
            let mut c = Cell { kind, ns: nsc, name, text, attr0: 0, nattr: 0 };
            if with_attr {
                c.nattr = 1;
            }
            t.push(c);
        }
        i += 1;
    }
    tape::register(0, t);
    let r = Reply::<CloseSession>::from_xml(tape::input_for(0));
    kani::cover!(r.is_ok(), "some arbitrary tape is a valid reply");
    kani::cover!(r.is_err(), "some arbitrary tape is rejected");
    std::mem::forget(r);
}

//! Model state shared by all tokio stand-ins, and the knobs/hooks harnesses use.
use std::future::Future;
use std::pin::Pin;
use std::task::{Context, Poll, RawWaker, RawWakerVTable, Waker};

#[derive(Clone, Copy)]
pub struct Knobs {
    pub spurious_pending: bool,
    pub select_any_order: bool,
}

static mut KNOBS: Knobs = Knobs { spurious_pending: false, select_any_order: false };

pub fn set_knobs(k: Knobs) {
    unsafe { KNOBS = k }
}

pub fn knobs() -> Knobs {
    unsafe { KNOBS }
}

/// Nondeterministic boolean (false natively).
#[inline]
pub fn nondet_bool() -> bool {
    #[cfg(kani)]
    {
        kani::any()
    }
    #[cfg(not(kani))]
    {
        false
    }
}

/// Nondeterministic index in `0..n` (0 natively).
#[inline]
pub fn nondet_below(n: usize) -> usize {
    #[cfg(kani)]
    {
        let i: usize = kani::any();
        kani::assume(i < n);
        i
    }
    #[cfg(not(kani))]
    {
        let _ = n;
        0
    }
}

/// One-shot "may answer Pending first" helper for leaf futures.
#[derive(Default, Debug)]
pub struct Yield {
    decided: bool,
}

impl Yield {
    pub const fn new() -> Self {
        Self { decided: false }
    }
    /// Returns true if the leaf should answer `Pending` on this poll.
    pub fn should_yield(&mut self) -> bool {
        if self.decided {
            return false;
        }
        self.decided = true;
        knobs().spurious_pending && nondet_bool()
    }
}

pub fn start_index(n: usize) -> usize {
    if knobs().select_any_order {
        nondet_below(n)
    } else {
        0
    }
}

// --- a waker that does nothing -----------------------------------------------------------------

fn noop_raw() -> RawWaker {
    fn clone(_: *const ()) -> RawWaker {
        noop_raw()
    }
    fn noop(_: *const ()) {}
    static VT: RawWakerVTable = RawWakerVTable::new(clone, noop, noop, noop);
    RawWaker::new(std::ptr::null(), &VT)
}

pub fn noop_waker() -> Waker {
    unsafe { Waker::from_raw(noop_raw()) }
}

/// Poll a pinned future once with the no-op waker.
pub fn poll_once<F: Future + ?Sized>(f: Pin<&mut F>) -> Poll<F::Output> {
    let w = noop_waker();
    let mut cx = Context::from_waker(&w);
    f.poll(&mut cx)
}

/// Poll `f` up to `max_polls` times; `None` if it is still pending afterwards.
pub fn run_bounded<F: Future>(f: F, max_polls: usize) -> Option<F::Output> {
    let mut f = std::pin::pin!(f);
    let mut i = 0;
    while i < max_polls {
        if let Poll::Ready(v) = poll_once(f.as_mut()) {
            return Some(v);
        }
        i += 1;
    }
    None
}

// --- spawned tasks -----------------------------------------------------------------------------

pub const MAX_TASKS: usize = 4;
type Task = Pin<Box<dyn Future<Output = ()>>>;
static mut TASKS: [Option<Task>; MAX_TASKS] = [None, None, None, None];
static mut NTASKS: usize = 0;

pub(crate) fn add_task(t: Task) -> usize {
    unsafe {
        let tasks = &mut *std::ptr::addr_of_mut!(TASKS);
        let i = NTASKS;
        assert!(i < MAX_TASKS, "model: too many spawned tasks");
        tasks[i] = Some(t);
        NTASKS += 1;
        i
    }
}

/// Harness hook: when set, `spawn` does not run the future; the `JoinHandle` completes with
/// the value the hook returns (a boxed `T`), or with a `JoinError` if it returns `None`.
/// This abstracts "the spawned job ran and produced outcome X" for harnesses whose subject is
/// the code *around* the job (the daemon loop).
pub type SpawnOverride = fn() -> Option<Box<dyn std::any::Any>>;
static mut SPAWN_OVERRIDE: Option<SpawnOverride> = None;

pub fn set_spawn_override(f: Option<SpawnOverride>) {
    unsafe { SPAWN_OVERRIDE = f }
}

pub(crate) fn spawn_override() -> Option<SpawnOverride> {
    unsafe { SPAWN_OVERRIDE }
}

pub fn task_count() -> usize {
    unsafe { NTASKS }
}

/// Poll spawned task `i` once.  Returns `true` if the task is finished (now or before).
pub fn poll_task(i: usize) -> bool {
    unsafe {
        let tasks = &mut *std::ptr::addr_of_mut!(TASKS);
        if i >= MAX_TASKS {
            return true;
        }
        match tasks[i].as_mut() {
            None => true,
            Some(t) => {
                if poll_once(t.as_mut()).is_ready() {
                    tasks[i] = None;
                    true
                } else {
                    false
                }
            }
        }
    }
}

pub fn task_finished(i: usize) -> bool {
    unsafe {
        let tasks = &*std::ptr::addr_of!(TASKS);
        i >= MAX_TASKS || tasks[i].is_none()
    }
}

/// Forget all spawned tasks without running their destructors (end of a harness).
pub fn forget_tasks() {
    unsafe {
        let tasks = &mut *std::ptr::addr_of_mut!(TASKS);
        let mut i = 0;
        while i < MAX_TASKS {
            std::mem::forget(tasks[i].take());
            i += 1;
        }
        NTASKS = 0;
    }
}

// --- scripted byte stream ----------------------------------------------------------------------

pub const CHUNK_CAP: usize = 16;
pub const MAX_STEPS: usize = 6;

#[derive(Clone, Copy, PartialEq, Eq, Debug)]
pub enum Step {
    /// `len` bytes arrive in one read
    Data { len: u8, bytes: [u8; CHUNK_CAP] },
    /// orderly close: this and every later read returns `Ok(0)`
    Eof,
    /// abrupt close: this and every later read returns `Err`
    Abort,
}

#[derive(Clone, Copy)]
pub struct Script {
    pub steps: [Step; MAX_STEPS],
    pub n: usize,
    pub pos: usize,
    /// number of read calls that reached the stream (answered Ready or Pending-for-lack-of-data)
    pub reads: usize,
    /// number of read calls made after the script was exhausted (peer silent)
    pub starved_reads: usize,
    /// bytes written by the client
    pub written: usize,
    pub writes: usize,
    pub fail_writes: bool,
    /// reads answered with Eof/Abort so far
    pub reads_after_close: usize,
    /// the client kept reading after `close_read_limit` answers of Eof/Abort: from then on
    /// reads answer `Pending` (so that a spinning client loop shows up as this flag instead of
    /// an unbounded unwinding)
    pub overrun: bool,
    pub close_read_limit: usize,
}

pub const EMPTY_STEP: Step = Step::Data { len: 0, bytes: [0; CHUNK_CAP] };

static mut SCRIPT: Script = Script {
    steps: [EMPTY_STEP; MAX_STEPS],
    n: 0,
    pos: 0,
    reads: 0,
    starved_reads: 0,
    written: 0,
    writes: 0,
    fail_writes: false,
    reads_after_close: 0,
    overrun: false,
    close_read_limit: 2,
};

pub fn set_script(steps: [Step; MAX_STEPS], n: usize) {
    unsafe {
        SCRIPT = Script { steps, n, pos: 0, reads: 0, starved_reads: 0, written: 0, writes: 0, fail_writes: false, reads_after_close: 0, overrun: false, close_read_limit: 2 };
    }
}

pub fn script() -> Script {
    unsafe { SCRIPT }
}

pub fn set_fail_writes(on: bool) {
    unsafe { SCRIPT.fail_writes = on }
}

pub(crate) enum ReadOutcome {
    Data(u8, [u8; CHUNK_CAP]),
    Eof,
    Abort,
    Starved,
}

pub(crate) fn script_read() -> ReadOutcome {
    unsafe {
        let s = &mut *std::ptr::addr_of_mut!(SCRIPT);
        if s.pos >= s.n || s.pos >= MAX_STEPS {
            s.starved_reads += 1;
            return ReadOutcome::Starved;
        }
        s.reads += 1;
        match s.steps[s.pos] {
            Step::Data { len, bytes } => {
                s.pos += 1;
                ReadOutcome::Data(len, bytes)
            }
            Step::Eof | Step::Abort => {
                if s.reads_after_close >= s.close_read_limit {
                    s.overrun = true;
                    return ReadOutcome::Starved;
                }
                s.reads_after_close += 1;
                if s.steps[s.pos] == Step::Eof {
                    ReadOutcome::Eof
                } else {
                    ReadOutcome::Abort
                }
            }
        }
    }
}

pub(crate) fn script_write(n: usize) -> bool {
    unsafe {
        let s = &mut *std::ptr::addr_of_mut!(SCRIPT);
        s.writes += 1;
        s.written += n;
        !s.fail_writes
    }
}

// --- virtual clock and signals -----------------------------------------------------------------

static mut NOW_NS: u128 = 0;

pub fn now_ns() -> u128 {
    unsafe { NOW_NS }
}

pub fn set_now_ns(t: u128) {
    unsafe { NOW_NS = t }
}

pub fn advance_ns(d: u128) {
    unsafe { NOW_NS += d }
}

/// Pending deliveries per signal kind (index: 0 = SIGHUP, 1 = SIGINT, 2 = SIGTERM, 3 = other).
static mut SIGNALS: [u8; 4] = [0; 4];

pub fn raise(kind: usize) {
    unsafe { SIGNALS[kind % 4] += 1 }
}

pub(crate) fn take_signal(kind: usize) -> bool {
    unsafe {
        if SIGNALS[kind % 4] > 0 {
            SIGNALS[kind % 4] -= 1;
            true
        } else {
            false
        }
    }
}

/// Earliest armed `Interval` deadline (one interval per harness is enough for bgpfu-rs).
static mut TIMER_DEADLINE: Option<u128> = None;

pub fn timer_deadline_ns() -> Option<u128> {
    unsafe { TIMER_DEADLINE }
}

pub(crate) fn set_timer_deadline(d: Option<u128>) {
    unsafe { TIMER_DEADLINE = d }
}

// --- entry points for sibling model crates ------------------------------------------------------

pub fn tls_read(out: &mut dyn FnMut(&[u8])) -> Poll<std::io::Result<usize>> {
    crate::io::scripted_read(out)
}

pub fn tls_write(data: &[u8]) -> Poll<std::io::Result<usize>> {
    crate::io::scripted_write(data)
}

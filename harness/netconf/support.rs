//! Shared helpers for the netconf harnesses (tables, tape grammar).
//! Injected as `crate::verif_support` under `cfg(kani)`.
use quick_xml::tape::{self, kind, ns, AttrCell, AttrName, Cell, Macro, Tape, TextEntry};

pub const BASE: u8 = ns::BASE;

/// Element names of the reply grammar (index = id in the tape).
pub mod n {
    pub const NONE: u8 = 0;
    pub const OK: u8 = 1;
    pub const RPC_ERROR: u8 = 2;
    pub const ERROR_TYPE: u8 = 3;
    pub const ERROR_TAG: u8 = 4;
    pub const ERROR_SEVERITY: u8 = 5;
    pub const RPC_REPLY: u8 = 6;
    pub const DATA: u8 = 7;
    pub const OTHER: u8 = 8;
    pub const LOAD_RESULTS: u8 = 9;
    pub const LOAD_ERROR_COUNT: u8 = 10;
    pub const ERROR_MESSAGE: u8 = 11;
}

pub static REPLY_NAMES: [&[u8]; 12] = [
    b"",
    b"ok",
    b"rpc-error",
    b"error-type",
    b"error-tag",
    b"error-severity",
    b"rpc-reply",
    b"data",
    b"other",
    b"load-configuration-results",
    b"load-error-count",
    b"error-message",
];

pub mod t {
    pub const EMPTY: u8 = 0;
    pub const PROTOCOL: u8 = 1;
    pub const OPERATION_FAILED: u8 = 2;
    pub const ERROR: u8 = 3;
    pub const WARNING: u8 = 4;
    pub const X: u8 = 5;
    pub const STRAY: u8 = 6;
    pub const C: u8 = 7;
    pub const N0: u8 = 8;
    pub const N1: u8 = 9;
    pub const N2: u8 = 10;
    pub const N3: u8 = 11;
    pub const ID_101: u8 = 12;
    pub const ID_102: u8 = 13;
    pub const ID_BAD: u8 = 14;
    pub const ERROR_PADDED: u8 = 15;
}

pub static REPLY_TEXTS: [TextEntry; 16] = [
    TextEntry::plain(""),
    TextEntry::plain("protocol"),
    TextEntry::plain("operation-failed"),
    TextEntry::plain("error"),
    TextEntry::plain("warning"),
    TextEntry::plain("x"),
    TextEntry::plain("stray"),
    TextEntry::plain(" c "),
    TextEntry::plain("0"),
    TextEntry::plain("1"),
    TextEntry::plain("2"),
    TextEntry::plain("3"),
    TextEntry::plain("101"),
    TextEntry::plain("102"),
    TextEntry::plain("x1"),
    TextEntry::padded("\n  error\n", "error"),
];

pub mod a {
    pub const MESSAGE_ID: u8 = 0;
    pub const XMLNS_JUNOS: u8 = 1;
}

pub static REPLY_ATTRS: [AttrName; 2] = [
    AttrName { qname: b"message-id", local: b"message-id", ns: ns::UNBOUND },
    AttrName { qname: b"xmlns:junos", local: b"junos", ns: ns::UNKNOWN },
];

pub fn use_reply_tables() {
    tape::set_tables(&REPLY_NAMES, &REPLY_TEXTS, &REPLY_ATTRS);
}

/// Reply-grammar items (DESIGN.md §4).
#[derive(Clone, Copy, PartialEq, Eq, Debug)]
pub enum Item {
    /// `<ok/>`
    Ok,
    /// `<ok></ok>`
    OkPair,
    /// `<rpc-error>` with severity error
    ErrError,
    /// `<rpc-error>` with severity warning
    ErrWarning,
    /// `<!-- c -->`
    Comment,
    /// `<other/>` (element of the base namespace the reader does not expect)
    Other,
    /// `<ok/>` in a foreign namespace
    ForeignOk,
    /// `<data>x</data>`
    Data,
    /// stray text
    Text,
}

pub const ITEM_KINDS: u8 = 9;

impl Item {
    pub fn from_code(c: u8) -> Self {
        match c {
            0 => Item::Ok,
            1 => Item::OkPair,
            2 => Item::ErrError,
            3 => Item::ErrWarning,
            4 => Item::Comment,
            5 => Item::Other,
            6 => Item::ForeignOk,
            7 => Item::Data,
            _ => Item::Text,
        }
    }
    /// Thorough tier: all 9 kinds.  Quick tier: the 4 kinds C08 is about - the positive
    /// indications `<ok/>` and `<data>` and the two rpc-error severities; comments and the
    /// unexpected-content kinds (`<ok></ok>`, foreign `<ok/>`, other element, stray text) take the
    /// readers' skip / catch-all arms and more than double the formula.
    pub fn any() -> Self {
        let c: u8 = kani::any();
        kani::assume(c < ITEM_KINDS);
        #[cfg(not(feature = "verif_deep"))]
        kani::assume(c == 0 || c == 2 || c == 3 || c == 7);
        Self::from_code(c)
    }
    pub fn is_error_severity_error(self) -> bool {
        self == Item::ErrError
    }
    pub fn is_rpc_error(self) -> bool {
        matches!(self, Item::ErrError | Item::ErrWarning)
    }
}

pub const MACRO_ERR_ERROR: u8 = 0;
pub const MACRO_ERR_WARNING: u8 = 1;

const fn rpc_error_cells(severity: u8) -> [Cell; 11] {
    [
        Cell::start(BASE, n::RPC_ERROR),
        Cell::start(BASE, n::ERROR_TYPE),
        Cell::text(t::PROTOCOL),
        Cell::end(BASE, n::ERROR_TYPE),
        Cell::start(BASE, n::ERROR_TAG),
        Cell::text(t::OPERATION_FAILED),
        Cell::end(BASE, n::ERROR_TAG),
        Cell::start(BASE, n::ERROR_SEVERITY),
        Cell::text(severity),
        Cell::end(BASE, n::ERROR_SEVERITY),
        Cell::end(BASE, n::RPC_ERROR),
    ]
}

/// `<rpc-error>` with the three mandatory children, as macros (11 cells each).
pub const ERR_ERROR: Macro = Macro::from_cells(&rpc_error_cells(t::ERROR));
pub const ERR_WARNING: Macro = Macro::from_cells(&rpc_error_cells(t::WARNING));

pub fn register_error_macros() {
    tape::register_macro(MACRO_ERR_ERROR, ERR_ERROR);
    tape::register_macro(MACRO_ERR_WARNING, ERR_WARNING);
}

pub mod cells {
    use super::*;
    pub const OK: Cell = Cell::empty(BASE, n::OK);
    pub const OK_START: Cell = Cell::start(BASE, n::OK);
    pub const OK_END: Cell = Cell::end(BASE, n::OK);
    pub const MAC_ERR_ERROR: Cell = Cell::mac(MACRO_ERR_ERROR);
    pub const MAC_ERR_WARNING: Cell = Cell::mac(MACRO_ERR_WARNING);
    pub const COMMENT: Cell = Cell::comment(t::C);
    pub const OTHER: Cell = Cell::empty(BASE, n::OTHER);
    pub const FOREIGN_OK: Cell = Cell::empty(ns::OTHER, n::OK);
    pub const DATA_START: Cell = Cell::start(BASE, n::DATA);
    pub const DATA_END: Cell = Cell::end(BASE, n::DATA);
    pub const TEXT_X: Cell = Cell::text(t::X);
    pub const TEXT_STRAY: Cell = Cell::text(t::STRAY);
    pub const REPLY_START: Cell = Cell::start(BASE, n::RPC_REPLY).with_attrs(0, 1);
    pub const REPLY_END: Cell = Cell::end(BASE, n::RPC_REPLY);
    pub const MSGID_101: AttrCell = AttrCell::new(a::MESSAGE_ID, t::ID_101);
}

/// Append the cells of `item` to `t`.
/// `<rpc-error>` as two cells (start tagged with the severity, end): the body is summarised by
/// the `rpc::Error::read_xml` stub.
pub const ERR_ERROR_START: Cell = Cell::start(BASE, n::RPC_ERROR).with_attrs(0, 0);
pub const ERR_WARNING_START: Cell = Cell::start(BASE, n::RPC_ERROR).with_attrs(1, 0);
pub const ERR_END: Cell = Cell::end(BASE, n::RPC_ERROR);

/// Like [`push_item`] but with the two-cell `<rpc-error>` form.
pub fn push_item_stubbed(t: &mut Tape, item: Item) {
    match item {
        Item::ErrError => {
            t.push(ERR_ERROR_START);
            t.push(ERR_END);
        }
        Item::ErrWarning => {
            t.push(ERR_WARNING_START);
            t.push(ERR_END);
        }
        other => push_item(t, other),
    }
}

pub const WINDOW: usize = 3;

/// The fixed-width window of an item (`None` = nothing), with the two-cell `<rpc-error>` form.
pub fn window_stubbed(item: Option<Item>) -> [Cell; WINDOW] {
    const X: Cell = Cell::NONE;
    match item {
        None => [Cell::nop(WINDOW as u8), X, X],
        Some(Item::Ok) => [cells::OK.with_skip(2), X, X],
        Some(Item::OkPair) => [cells::OK_START, cells::OK_END.with_skip(1), X],
        Some(Item::ErrError) => [ERR_ERROR_START, ERR_END.with_skip(1), X],
        Some(Item::ErrWarning) => [ERR_WARNING_START, ERR_END.with_skip(1), X],
        Some(Item::Comment) => [cells::COMMENT.with_skip(2), X, X],
        Some(Item::Other) => [cells::OTHER.with_skip(2), X, X],
        Some(Item::ForeignOk) => [cells::FOREIGN_OK.with_skip(2), X, X],
        Some(Item::Data) => [cells::DATA_START, cells::TEXT_X, cells::DATA_END],
        Some(Item::Text) => [cells::TEXT_STRAY.with_skip(2), X, X],
    }
}

pub fn push_window(t: &mut Tape, w: [Cell; WINDOW]) {
    t.push(w[0]);
    t.push(w[1]);
    t.push(w[2]);
}

pub fn push_item(t: &mut Tape, item: Item) {
    match item {
        Item::Ok => t.push(cells::OK),
        Item::OkPair => {
            t.push(cells::OK_START);
            t.push(cells::OK_END);
        }
        Item::ErrError => t.push(cells::MAC_ERR_ERROR),
        Item::ErrWarning => t.push(cells::MAC_ERR_WARNING),
        Item::Comment => t.push(cells::COMMENT),
        Item::Other => t.push(cells::OTHER),
        Item::ForeignOk => t.push(cells::FOREIGN_OK),
        Item::Data => {
            t.push(cells::DATA_START);
            t.push(cells::TEXT_X);
            t.push(cells::DATA_END);
        }
        Item::Text => t.push(cells::TEXT_STRAY),
    }
}

pub fn reply_close(t: &mut Tape) {
    t.push(cells::REPLY_END);
}

//! Model of `quick_xml::events::attributes`.
use std::borrow::Cow;
use std::fmt;

use crate::errors::Result as XmlResult;
use crate::name::QName;
use crate::tape::ELEM_ATTRS;


#[derive(Clone, PartialEq, Eq)]
pub struct Attribute<'a> {
    pub key: QName<'a>,
    /// Reader side: the logical value (the model stores attribute values unescaped and
    /// `unescape_value` is the identity).  Writer side: the bytes that go on the wire.
    pub value: Cow<'a, [u8]>,
}

impl<'a> Attribute<'a> {
    pub fn unescape_value(&self) -> XmlResult<Cow<'a, str>> {
        Ok(match &self.value {
            Cow::Borrowed(b) => Cow::Borrowed(unsafe { std::str::from_utf8_unchecked(b) }),
            Cow::Owned(v) => Cow::Owned(unsafe { String::from_utf8_unchecked(v.clone()) }),
        })
    }
}

impl fmt::Debug for Attribute<'_> {
    fn fmt(&self, f: &mut fmt::Formatter<'_>) -> fmt::Result {
        write!(f, "Attribute {{ key: {:?}, value: {:?} }}", self.key, String::from_utf8_lossy(&self.value))
    }
}

/// Marker stored in the first byte position of writer-side attribute values that still need
/// escaping is not needed: the writer model records `escaped` separately (see writer.rs).
impl<'a> From<(&'a [u8], &'a [u8])> for Attribute<'a> {
    fn from(val: (&'a [u8], &'a [u8])) -> Attribute<'a> {
        Attribute { key: QName(val.0), value: Cow::Borrowed(val.1) }
    }
}

impl<'a> From<(&'a str, &'a str)> for Attribute<'a> {
    /// The real impl escapes the value here.  The model keeps the logical value and tags the
    /// attribute as "went through the escaping constructor" by wrapping it in `Cow::Owned`
    /// with a leading 0x01 marker byte that the writer strips again.
    fn from(val: (&'a str, &'a str)) -> Attribute<'a> {
        let mut v = Vec::with_capacity(val.1.len() + 1);
        v.push(ESCAPE_MARK);
        v.extend_from_slice(val.1.as_bytes());
        Attribute { key: QName(val.0.as_bytes()), value: Cow::Owned(v) }
    }
}

pub(crate) const ESCAPE_MARK: u8 = 0x01;

#[derive(Clone, Copy, Debug, PartialEq, Eq)]
pub enum AttrError {
    ExpectedEq(usize),
    ExpectedValue(usize),
    UnquotedValue(usize),
    ExpectedQuote(usize, u8),
    Duplicated(usize, usize),
}

impl fmt::Display for AttrError {
    fn fmt(&self, f: &mut fmt::Formatter<'_>) -> fmt::Result {
        f.write_str("attribute error (model)")
    }
}
impl std::error::Error for AttrError {}

#[derive(Clone, Debug)]
pub struct Attributes<'a> {
    pub(crate) slot: u8,
    pub(crate) attr0: u8,
    pub(crate) nattr: u8,
    pub(crate) pos: usize,
    pub(crate) with_checks: bool,
    pub(crate) _p: std::marker::PhantomData<&'a ()>,
}

impl<'a> Attributes<'a> {
    pub fn with_checks(&mut self, val: bool) -> &mut Attributes<'a> {
        self.with_checks = val;
        self
    }
}

impl<'a> Iterator for Attributes<'a> {
    type Item = Result<Attribute<'a>, AttrError>;

    fn next(&mut self) -> Option<Self::Item> {
        let n = self.nattr as usize;
        if self.pos >= n || self.pos >= ELEM_ATTRS {
            return None;
        }
        let i = self.pos;
        self.pos += 1;
        let a = crate::tape::attr_at(self.slot, self.attr0 as usize + i);
        if self.with_checks {
            let mut j = 0;
            while j < i {
                if crate::tape::attr_at(self.slot, self.attr0 as usize + j).key == a.key {
                    return Some(Err(AttrError::Duplicated(i, j)));
                }
                j += 1;
            }
        }
        Some(Ok(Attribute {
            key: QName(crate::tape::attr_name(a.key).qname),
            value: Cow::Borrowed(crate::tape::text_entry(a.val).raw.as_bytes()),
        }))
    }
}

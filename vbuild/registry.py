"""Registry of properties -> Kani harnesses, bounds, loop rules (see DESIGN.md §5)."""

DEFAULT_TIMEOUT = {"quick": 420, "thorough": 2400}

# regex on the demangled function name (or the loop id) -> unwind bound for that loop
DEFAULT_LOOP_RULES = {
    r"^memcmp\.": 43,
}

FRAMING_LOOPS = {
    r"Finder.*find\.0$": 7,      # inner needle comparison (needle = 6 bytes)
    r"Finder.*find\.1$": 12,     # outer scan over the buffer (<= 16 bytes -> <= 11 start positions)
    r"RecvHandle.*recv": 6,       # the read loop: <= 4 chunks / 1 chunk + 2 close answers, + exit
    r"run_bounded": 2,
}

COMMON_ASSUMPTIONS = [
    "verification build: /repo sources copied verbatim; only `std::collections` paths rewritten to the Vec-backed vcollections model; harness modules appended under cfg(kani)",
    "model crates in the trusted base: verif-tracing (no-op macros), memchr (naive loops), quick-xml (event tapes, interned names), tokio (leaf futures over model state), tokio-rustls / russh / russh-keys (type shells over scripted streams), vcollections",
    "Kani --no-memory-safety-checks: pointer-validity checks are off (bgpfu-rs contains no unsafe code; model crates' unsafe blocks are trusted); panics, arithmetic overflow, slice bounds and unwinding assertions stay on",
    "bounded: every claim holds only within the bounds listed per harness; unwinding assertions make a too-small bound fail instead of truncating",
]

SSH_LOOPS = {
    r"Finder.*find\.0$": 7,
    r"Finder.*find\.1$": 12,
    r"Ssh.*connect": 8,           # pump loop: <= 4 data packets + 2 close answers + exit
    r"run_bounded": 3,
}

NETCONF = "bgpfu-netconf"

CHECKS = {}


def harness(name, package=NETCONF, **kw):
    d = {"name": name, "package": package}
    d.update(kw)
    return d


CHECKS["C06"] = {
    "crates": ["netconf"],
    "explanation": "tls::Receiver::recv and junos_local::Receiver::recv (real bytes::BytesMut, memchr model) are executed symbolically over "
                   "scripted streams: (quick) one message with payload 0..2 bytes over {x,],>} cut into 1..3 non-empty chunks at every "
                   "position - including the five positions inside the delimiter - and two messages with payload 0..1 bytes in 1..2 chunks "
                   "(several messages per read); (thorough) two messages, payload 0..2, 1..4 chunks.  Each recv() must return exactly the "
                   "next delimiter-terminated message after exactly the reads needed to deliver its last delimiter byte.",
    "assumptions": ["reads deliver exactly the scripted chunks; TLS record reassembly below read_buf is not modelled",
                    "BytesMut::reserve_inner (grow path) replaced by a stub that asserts it is unreachable; the 1 KiB receive buffer is replaced by a 32-byte one",
                    "the SSH pump (transport/ssh.rs) is NOT covered: its harness (c06_ssh_segmentation, thorough tier) did not finish in 90 min"],
    "harnesses": [
        harness("c06_tls_one_message_cuts", functions=["transport::tls::Receiver::recv", "bytes::BytesMut", "memchr::memmem::Finder::find (model)"],
                bounds="1 message, payload<=2 bytes over {x,],>}, 1..3 chunks, 1 poll", loops=FRAMING_LOOPS, stubbing=True, timeout={"quick": 900, "thorough": 2400}),
        harness("c06_tls_two_messages", functions=["transport::tls::Receiver::recv"],
                bounds="2 messages, payload<=1 byte, 1..2 chunks", loops=FRAMING_LOOPS, stubbing=True, timeout={"quick": 900, "thorough": 2400}),
        harness("c06_junos_local_one_message_cuts", functions=["transport::junos_local::Receiver::recv"],
                bounds="as c06_tls_one_message_cuts", loops=FRAMING_LOOPS, stubbing=True, timeout={"quick": 900, "thorough": 2400}),
        harness("c06_junos_local_two_messages", functions=["transport::junos_local::Receiver::recv"],
                bounds="as c06_tls_two_messages", loops=FRAMING_LOOPS, stubbing=True, timeout={"quick": 900, "thorough": 2400}),
        harness("c06_tls_segmentation", functions=["transport::tls::Receiver::recv"],
                bounds="2 messages, payload<=2 bytes, 1..4 chunks", loops=FRAMING_LOOPS, stubbing=True, tiers=["thorough"], timeout={"thorough": 3000}, mem_gb=30),
        harness("c06_junos_local_segmentation", functions=["transport::junos_local::Receiver::recv"],
                bounds="2 messages, payload<=2 bytes, 1..4 chunks", loops=FRAMING_LOOPS, stubbing=True, tiers=["thorough"], timeout={"thorough": 3000}, mem_gb=30),
    ],
}

CHECKS["C07"] = {
    "crates": ["netconf"],
    "explanation": "tls/junos_local Receiver::recv executed symbolically over: a strict prefix (possibly empty, possibly ending inside the "
                   "delimiter) of one message, then orderly close (every further read returns 0) or abrupt close (every further read fails). "
                   "recv() must complete with an error; a loop that keeps reading is detected by the stream model's overrun flag (reads after "
                   "close are answered at most twice, then Pending).",
    "assumptions": ["reads deliver exactly the scripted chunks; close is what read_buf reports (Ok(0) / Err)",
                    "session-level propagation (pending RPCs fail once recv() fails) follows from Session::recv's `?` and is exercised by the C05 harnesses, not here",
                    "the SSH pump (transport/ssh.rs) is NOT covered: c07_ssh_disconnect (thorough tier) did not finish in 90 min"],
    "harnesses": [
        harness("c07_tls_disconnect", functions=["transport::tls::Receiver::recv"],
                bounds="strict prefix of one message (payload<=2) then Eof/Abort, 1 poll, 32-byte buffer", loops=FRAMING_LOOPS, stubbing=True, timeout={"quick": 900, "thorough": 2400}),
        harness("c07_junos_local_disconnect", functions=["transport::junos_local::Receiver::recv"], bounds="as c07_tls_disconnect", loops=FRAMING_LOOPS, stubbing=True,
                timeout={"quick": 900, "thorough": 2400}),
    ],
}

READER_LOOPS = {
    r"ReadXml.*read_xml": 7,      # reader loops: <= 2 cells per item + End + exit
    r"seek_end": 4,               # leaf content: text, end (+1)
    r"name_id_of": 14,
    r"drop_glue.*InfoElement": 1,  # error-info is always empty in these harnesses (asserted by the unwinding assertion)
    r"drop_glue": 4,
    r"is_whitespace": 20,
    r"from_ascii": 5,
}

CHECKS["C08"] = {
    "crates": ["netconf"],
    "explanation": "Each reply reader (EmptyReply, DataReply<Opaque>, BareReply, load_configuration::Reply) is executed symbolically over every "
                   "reply of up to 3 grammar items (ok as <ok/> or <ok></ok>, rpc-error with severity error or warning, comment, unexpected "
                   "element, <ok/> in a foreign namespace, <data>, stray text), compositional: rpc::Error::read_xml is replaced by a summary "
                   "stub in the outer-reader harnesses and checked on its own in c08_rpc_error_reader.",
    "assumptions": ["event-level: the quick-xml model replays event tapes; byte-level tokenisation is quick-xml's",
                    "summary stub for rpc::Error::read_xml (consumes the element, returns the severity the tape declares); justified by c08_rpc_error_reader"],
    "harnesses": [
        harness("c08_empty_reply", functions=["EmptyReply::read_xml"], bounds="<=2 items from the 9-item reply grammar", deep_bounds="<=3 items", deep=True, loops=READER_LOOPS, stubbing=True, timeout={"quick": 600, "thorough": 5400}, mem_gb=30),
        harness("c08_data_reply", functions=["DataReply::<Opaque>::read_xml", "Opaque::read_xml"], bounds="<=2 items", deep_bounds="<=3 items", deep=True, loops=READER_LOOPS, stubbing=True, timeout={"quick": 600, "thorough": 5400}, mem_gb=30),
        harness("c08_bare_reply", functions=["junos::BareReply::read_xml"], bounds="<=2 items", deep_bounds="<=3 items", deep=True, loops=READER_LOOPS, stubbing=True, timeout={"quick": 600, "thorough": 5400}, mem_gb=30),
        harness("c08_load_configuration_reply", functions=["junos::load_configuration::Reply::read_xml"],
                bounds="<load-configuration-results> present or absent, <=2 inner items (ok, ok pair, rpc-error error/warning, load-error-count 0..3, comment, other)",
                deep_bounds="... <=3 inner items", deep=True, loops=READER_LOOPS, stubbing=True, timeout={"quick": 900, "thorough": 5400}, mem_gb=30),
        harness("c08_rpc_error_reader", functions=["rpc::Error::read_xml", "Type/Tag/Severity::from_str"],
                bounds="three mandatory children in all 6 orders, each present/absent, 4 severity texts", loops=READER_LOOPS, timeout={"quick": 900, "thorough": 3000}),
    ],
}

# Properties whose checks are registered in MANIFEST.json (the others stay in the registry for
# development but are listed under not_applicable until their quick tier is reliably green).
CLAIMED = ["C06", "C07"]

NOT_APPLICABLE = {
    "C11": "semantics reside in the third-party crates rpsl (pest parser + evaluator), generic-ip (prefix tries) and irrc (TCP client); bgpfu's own 240 lines only wire resolvers together. Kani cannot get through hash maps, tries of depth 128, a pest parser or sockets, and modelling all three would leave nothing of the property to check (DESIGN.md §6)",
    "C17": "the state in question (response/query alignment) belongs to irrc::Connection and rpsl's evaluator; bgpfu contributes a two-line take/restore. With irrc replaced by a model the property would be a statement about the model (DESIGN.md §6)",
}
PENDING = "not claimed yet in this round: the Kani harness family for this property is not finished (see DESIGN.md, status section)"
for _i in range(1, 21):
    NOT_APPLICABLE.setdefault("C%02d" % _i, PENDING)

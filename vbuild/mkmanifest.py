#!/usr/bin/env python3
"""Write MANIFEST.json from the registry (so the two cannot drift apart)."""
import json
import os
import sys

sys.path.insert(0, os.path.dirname(os.path.abspath(__file__)))
import registry

VERIF = os.path.dirname(os.path.dirname(os.path.abspath(__file__)))

checks = []
for pid, spec in sorted((p, registry.CHECKS[p]) for p in registry.CLAIMED):
    checks.append({
        "property_id": pid,
        "quick_cmd": f"./check {pid} --tier quick",
        "thorough_cmd": f"./check {pid} --tier thorough",
        "evidence_file": f"/verif/evidence/{pid}.json",
        "replay_cmd_template": f"./check {pid} --replay {{path}}",
        "engine": "kani-cbmc",
        "level_claimed": {
            "category": "model_checking",
            "text": spec.get("level_text", spec.get("level_text_prefix", "") + "Bounded model checking of the real bgpfu-rs functions: Kani compiles the repository sources (against "
                    "verification models of their third-party environment) and CBMC decides every assertion for all values of the symbolic "
                    "inputs within the stated bounds, with unwinding assertions on.  " + spec.get("explanation", "")),
            "design_ref": spec.get("design_ref", "DESIGN.md §5 " + pid + " (intent), 9.6 (what is claimed), 9.2 (why the bounds are what they are)"),
        },
        "level_note": "; ".join(spec.get("assumptions", []) + registry.COMMON_ASSUMPTIONS),
        "technique": "solver-based checking of the real code: Kani 0.68 proof harnesses over kani::any() inputs, CBMC 6.11 + CaDiCaL, per-loop unwind bounds with unwinding assertions",
    })

na = [{"property_id": pid, "reason": reason} for pid, reason in sorted(registry.NOT_APPLICABLE.items()) if pid not in registry.CLAIMED]

manifest = {
    "version": 1,
    "setup_cmd": "./setup.sh",
    "hooks": {
        "guard": "bgpfu_rs_verif",
        "enable": "none needed: checks compile a fresh copy of /repo's sources against model crates (vbuild/gen.py) and append harness modules to the copy under cfg(kani); nothing in /repo is guarded",
        "baseline_off_cmd": "cd /repo && cargo test --workspace --no-fail-fast --offline",
        "source_commits": [],
        "add_only": True,
    },
    "engines": [
        {"name": "kani-cbmc", "path": "/verif/check", "serves_properties": sorted(registry.CLAIMED),
         "kind_free_text": "Kani 0.68 (cargo kani) / CBMC 6.11 bounded model checking of the repository's Rust sources compiled against model crates in /verif/models"},
    ],
    "checks": checks,
    "not_applicable": na,
    "notes": "See DESIGN.md.  Exit codes of ./check: 0 held, 1 violation (VIOLATION line), 2 inconclusive (timeout/OOM/model gap) - never reported as success.",
}
with open(os.path.join(VERIF, "MANIFEST.json"), "w") as fh:
    json.dump(manifest, fh, indent=1)
print("wrote MANIFEST.json:", len(checks), "checks,", len(na), "not applicable")

//! Harnesses that need `Session`/`Context` internals.  Child module of `session`.
//!
//! C09: builders against every capability set.
use super::*;
use crate::capabilities::Capability;
use crate::message::rpc::operation::{
    edit_config::{DefaultOperation, ErrorOption, TestOption},
    CancelCommit, Commit, CopyConfig, Datastore, DeleteConfig, DiscardChanges, EditConfig, Filter, Get, GetConfig, KillSession, Lock,
    Opaque, Token, Unlock, Validate,
};
use crate::message::rpc::Operation;

/// Server capability bits.
#[derive(Clone, Copy)]
pub struct Caps {
    pub writable_running: bool,
    pub candidate: bool,
    pub cc10: bool,
    pub cc11: bool,
    pub rollback: bool,
    pub v10: bool,
    pub v11: bool,
    pub startup: bool,
    pub xpath: bool,
    pub junos: bool,
    pub url: bool,
    pub url_file: bool,
    pub url_ftp: bool,
    pub url_http: bool,
}

impl Caps {
    pub fn any() -> Self {
        let c = Self {
            writable_running: kani::any(),
            candidate: kani::any(),
            cc10: kani::any(),
            cc11: kani::any(),
            rollback: kani::any(),
            v10: kani::any(),
            v11: kani::any(),
            startup: kani::any(),
            xpath: kani::any(),
            junos: kani::any(),
            url: kani::any(),
            url_file: kani::any(),
            url_ftp: kani::any(),
            url_http: kani::any(),
        };
        // scheme bits only mean something when :url is advertised
        kani::assume(c.url || !(c.url_file || c.url_ftp || c.url_http));
        c
    }

    pub fn context(&self) -> Context {
        // The :url scheme list always has three entries; a scheme that is not advertised is
        // replaced by a junk scheme of the same length ("xile", "xtp", "xttp").  That keeps the
        // vector and its strings at concrete sizes (symbolic-length heap data is toxic for
        // CBMC) while every subset of {file, ftp, http} is represented.
        let schemes: Vec<Box<str>> = vec![
            (if self.url_file { "file" } else { "xile" }).into(),
            (if self.url_ftp { "ftp" } else { "xtp" }).into(),
            (if self.url_http { "http" } else { "xttp" }).into(),
        ];
        fn opt(on: bool, c: Capability) -> Option<Capability> {
            if on {
                Some(c)
            } else {
                std::mem::forget(c);
                None
            }
        }
        let server = crate::capabilities::verif_caps::capabilities_from_slots([
            Some(Capability::Base(Base::V1_0)),
            opt(self.writable_running, Capability::WritableRunning),
            opt(self.candidate, Capability::Candidate),
            opt(self.cc10, Capability::ConfirmedCommitV1_0),
            opt(self.cc11, Capability::ConfirmedCommitV1_1),
            opt(self.rollback, Capability::RollbackOnError),
            opt(self.v10, Capability::ValidateV1_0),
            opt(self.v11, Capability::ValidateV1_1),
            opt(self.startup, Capability::Startup),
            opt(self.xpath, Capability::XPath),
            opt(self.junos, Capability::JunosXmlManagementProtocol),
            opt(self.url, Capability::Url(schemes)),
            None,
            None,
        ]);
        let client: Capabilities = std::iter::once(Capability::Base(Base::V1_0)).collect();
        Context::new(SessionId::new(7).unwrap(), Base::V1_0, client, server)
    }

    // RFC 6241 §8 oracle --------------------------------------------------------------------
    pub fn source_ok(&self, d: Datastore) -> bool {
        match d {
            Datastore::Running => true,
            Datastore::Candidate => self.candidate,
            Datastore::Startup => self.startup,
        }
    }
    pub fn target_ok(&self, d: Datastore) -> bool {
        match d {
            Datastore::Running => self.writable_running,
            Datastore::Candidate => self.candidate,
            Datastore::Startup => self.startup,
        }
    }
    pub fn lock_ok(&self, d: Datastore) -> bool {
        self.source_ok(d)
    }
    pub fn validate(&self) -> bool {
        self.v10 || self.v11
    }
    pub fn confirmed(&self) -> bool {
        self.cc10 || self.cc11
    }
    pub fn scheme_ok(&self, s: u8) -> bool {
        self.url
            && match s {
                0 => self.url_file,
                1 => self.url_ftp,
                _ => self.url_http,
            }
    }
}

/// `Operation::new` decomposed into its two halves — the operation-level requirement gate and
/// the builder run — without the `Option::ok_or(..)?` plumbing in between: moving
/// `Result<Result<O, Error>, Error>` values costs CBMC ~100 s per call (measured), whatever the
/// operation.  The real `Operation::new` is executed once, in `c09_operation_new_gate`.
pub fn new_decomposed<'a, O, F>(ctx: &'a Context, build_fn: F) -> Result<O, ()>
where
    O: Operation,
    F: FnOnce(O::Builder<'a>) -> Result<O, Error>,
{
    if !O::REQUIRED_CAPABILITIES.check(ctx.server_capabilities()) {
        return Err(());
    }
    match <O::Builder<'a> as Builder<'a, O>>::new(ctx).build(build_fn) {
        Ok(o) => Ok(o),
        Err(e) => {
            std::mem::forget(e);
            Err(())
        }
    }
}

pub const DATASTORES: [Datastore; 3] = [Datastore::Running, Datastore::Candidate, Datastore::Startup];

pub fn url_for(s: u8) -> &'static str {
    match s {
        0 => "file:///c",
        1 => "ftp://h/c",
        _ => "http://h/c",
    }
}

/// filter choice: 0 = none, 1 = subtree, 2 = xpath
pub fn filter_for(f: u8) -> Option<Filter> {
    match f {
        0 => None,
        1 => Some(Filter::Subtree(String::new())),
        _ => Some(Filter::XPath(String::new())),
    }
}

// Parameter values with small domains (datastore, filter type, option values) are enumerated
// by concrete loops *inside* each harness; the capability set stays symbolic, so every
// assertion is still decided for all capability subsets at once.  (A symbolic `Datastore`
// makes the required `Capability` symbolic, and comparing a symbolic `Capability` with the
// `Url(Vec<Box<str>>)` slot explores string comparisons that can never match.)

#[kani::proof]
#[kani::unwind(16)]
fn c09_get_op() {
    let caps = Caps::any();
    let ctx = caps.context();
    let mut f = 0u8;
    while f < 3 {
        let r = new_decomposed::<Get, _>(&ctx, |b| b.filter(filter_for(f)).finish());
        let allowed = f != 2 || caps.xpath;
        assert!(r.is_ok() == allowed, "C09 get: request built iff its filter type is permitted by the capabilities");
        kani::cover!(r.is_ok() && f == 2, "xpath filter accepted");
        std::mem::forget(r);
        f += 1;
    }
    std::mem::forget(ctx);
}

#[kani::proof]
#[kani::unwind(16)]
fn c09_get_config() {
    let caps = Caps::any();
    let ctx = caps.context();
    let mut di = 0;
    while di < 3 {
        let d = DATASTORES[di];
        let mut f = 0u8;
        while f < 3 {
            let r = new_decomposed::<GetConfig<Opaque>, _>(&ctx, |b| b.source(d)?.filter(filter_for(f))?.finish());
            let allowed = caps.source_ok(d) && (f != 2 || caps.xpath);
            assert!(r.is_ok() == allowed, "C09 get-config: request built iff source datastore and filter type are permitted");
            kani::cover!(r.is_ok() && f == 2 && di == 2, "startup + xpath accepted");
            kani::cover!(r.is_err() && di == 0, "get-config from running refused (filter)");
            std::mem::forget(r);
            f += 1;
        }
        di += 1;
    }
    std::mem::forget(ctx);
}

#[kani::proof]
#[kani::unwind(16)]
fn c09_lock_unlock() {
    let caps = Caps::any();
    let ctx = caps.context();
    let mut di = 0;
    while di < 3 {
        let d = DATASTORES[di];
        let r = new_decomposed::<Lock, _>(&ctx, |b| b.target(d)?.finish());
        let u = new_decomposed::<Unlock, _>(&ctx, |b| b.target(d)?.finish());
        assert!(r.is_ok() == caps.lock_ok(d), "C09 lock: built iff the target datastore is permitted");
        assert!(u.is_ok() == caps.lock_ok(d), "C09 unlock: built iff the target datastore is permitted");
        kani::cover!(r.is_ok() && di == 1, "lock candidate accepted");
        kani::cover!(r.is_err(), "lock refused");
        std::mem::forget((r, u));
        di += 1;
    }
    std::mem::forget(ctx);
}

#[kani::proof]
#[kani::unwind(16)]
fn c09_commit() {
    let caps = Caps::any();
    let ctx = caps.context();
    // which optional parameters the caller sets
    let set_confirmed: bool = kani::any();
    let confirmed_val: bool = kani::any();
    let set_timeout: bool = kani::any();
    let set_persist: bool = kani::any();
    let set_persist_id: bool = kani::any();
    let r = new_decomposed::<Commit, _>(&ctx, |mut b| {
        if set_confirmed {
            b = b.confirmed(confirmed_val)?;
        }
        if set_timeout {
            b = b.confirm_timeout(std::time::Duration::from_secs(30))?;
        }
        if set_persist {
            b = b.persist(Some(Token::new("t")))?;
        }
        if set_persist_id {
            b = b.persist_id(Some(Token::new("t")))?;
        }
        b.finish()
    });
    let confirmed = set_confirmed && confirmed_val;
    // what the request content needs (RFC 6241 §8.3, §8.4)
    let needs_ok = caps.candidate
        && (!(set_confirmed || set_timeout) || caps.confirmed())
        && (!(set_persist || set_persist_id) || caps.cc11);
    // parameter combinations the operation itself forbids
    let combo_ok = !(confirmed && set_persist_id) && !(!confirmed && set_persist);
    if r.is_ok() {
        assert!(needs_ok, "C09 commit: request built although a parameter is not permitted by the capabilities");
    }
    if needs_ok && combo_ok {
        assert!(r.is_ok(), "C09 commit: request within the advertised capabilities refused");
    }
    kani::cover!(r.is_ok() && confirmed && set_persist, "confirmed + persist accepted");
    kani::cover!(r.is_err() && caps.candidate, "commit refused for a parameter");
    std::mem::forget(r);
    std::mem::forget(ctx);
}

#[kani::proof]
#[kani::unwind(16)]
fn c09_simple_ops() {
    let caps = Caps::any();
    let ctx = caps.context();
    let set_pid: bool = kani::any();
    let cc = new_decomposed::<CancelCommit, _>(&ctx, |mut b| {
        if set_pid {
            b = b.persist_id(Some(Token::new("t")))?;
        }
        b.finish()
    });
    assert!(cc.is_ok() == caps.cc11, "C09 cancel-commit: built iff :confirmed-commit:1.1");
    let dc = new_decomposed::<DiscardChanges, _>(&ctx, |b| b.finish());
    assert!(dc.is_ok() == caps.candidate, "C09 discard-changes: built iff :candidate");
    let sid: u32 = kani::any();
    let ks = new_decomposed::<KillSession, _>(&ctx, |b| b.session_id(sid)?.finish());
    assert!(ks.is_ok() == (sid != 0 && sid != 7), "C09 kill-session: built iff the id is valid and not the own session");
    let cs = new_decomposed::<CloseSession, _>(&ctx, Builder::finish);
    assert!(cs.is_ok(), "C09 close-session: always permitted");
    kani::cover!(cc.is_ok() && set_pid, "cancel-commit with persist-id accepted");
    std::mem::forget((cc, dc, ks, cs));
    std::mem::forget(ctx);
}

#[kani::proof]
#[kani::unwind(16)]
fn c09_validate_delete() {
    let caps = Caps::any();
    let ctx = caps.context();
    let vi = new_decomposed::<Validate, _>(&ctx, |b| b.config(String::new()).finish());
    assert!(vi.is_ok() == caps.validate(), "C09 validate (inline config): built iff :validate");
    std::mem::forget(vi);
    let mut di = 0;
    while di < 3 {
        let d = DATASTORES[di];
        let v = new_decomposed::<Validate, _>(&ctx, |b| b.source(d)?.finish());
        assert!(v.is_ok() == (caps.validate() && caps.source_ok(d)), "C09 validate: built iff :validate and the source datastore are permitted");
        let del = new_decomposed::<DeleteConfig, _>(&ctx, |b| b.target(d)?.finish());
        let del_allowed = di != 0 && caps.target_ok(d);
        assert!(del.is_ok() == del_allowed, "C09 delete-config: built iff the target is not running and is permitted");
        kani::cover!(v.is_ok() && di == 1, "validate candidate accepted");
        kani::cover!(del.is_ok(), "delete-config accepted");
        std::mem::forget((v, del));
        di += 1;
    }
    std::mem::forget(ctx);
}

#[kani::proof]
#[kani::unwind(16)]
fn c09_copy_config() {
    let caps = Caps::any();
    let ctx = caps.context();
    let mut ti = 0;
    while ti < 3 {
        let t = DATASTORES[ti];
        let ri = new_decomposed::<CopyConfig, _>(&ctx, |b| b.target(t)?.config(String::new()).finish());
        assert!(ri.is_ok() == caps.target_ok(t), "C09 copy-config (inline source): built iff the target datastore is permitted");
        std::mem::forget(ri);
        let mut si = 0;
        while si < 3 {
            let s = DATASTORES[si];
            let r = new_decomposed::<CopyConfig, _>(&ctx, |b| b.target(t)?.source(s)?.finish());
            assert!(r.is_ok() == (caps.target_ok(t) && caps.source_ok(s)), "C09 copy-config: built iff target and source datastores are permitted");
            kani::cover!(r.is_ok() && ti == 2 && si == 1, "copy candidate -> startup accepted");
            kani::cover!(r.is_err(), "copy-config refused");
            std::mem::forget(r);
            si += 1;
        }
        ti += 1;
    }
    std::mem::forget(ctx);
}

pub const TEST_OPTIONS: [TestOption; 3] = [TestOption::TestThenSet, TestOption::Set, TestOption::TestOnly];
pub const ERROR_OPTIONS: [ErrorOption; 3] = [ErrorOption::StopOnError, ErrorOption::ContinueOnError, ErrorOption::RollbackOnError];

#[kani::proof]
#[kani::unwind(16)]
fn c09_edit_config_target() {
    let caps = Caps::any();
    let ctx = caps.context();
    let mut ti = 0;
    while ti < 3 {
        let t = DATASTORES[ti];
        let r = new_decomposed::<EditConfig<Opaque>, _>(&ctx, |b| {
            b.target(t)?.config(Opaque::from("")).default_operation(DefaultOperation::None).finish()
        });
        assert!(r.is_ok() == caps.target_ok(t), "C09 edit-config: built iff the target datastore is permitted");
        kani::cover!(r.is_ok() && ti == 0, "edit running accepted");
        kani::cover!(r.is_err(), "edit-config refused");
        std::mem::forget(r);
        ti += 1;
    }
    std::mem::forget(ctx);
}

#[kani::proof]
#[kani::unwind(16)]
fn c09_edit_config_options() {
    let caps = Caps::any();
    kani::assume(caps.candidate);
    let ctx = caps.context();
    let mut k = 0;
    while k < 3 {
        let test = TEST_OPTIONS[k];
        let r = new_decomposed::<EditConfig<Opaque>, _>(&ctx, |b| {
            b.target(Datastore::Candidate)?.config(Opaque::from("")).test_option(test)?.finish()
        });
        let allowed = if k == 2 { caps.v11 } else { caps.validate() };
        assert!(r.is_ok() == allowed, "C09 edit-config: built iff the test-option value is permitted");
        kani::cover!(r.is_ok() && k == 2, "test-only accepted");
        std::mem::forget(r);
        let err = ERROR_OPTIONS[k];
        let r = new_decomposed::<EditConfig<Opaque>, _>(&ctx, |b| {
            b.target(Datastore::Candidate)?.config(Opaque::from("")).error_option(err)?.finish()
        });
        assert!(r.is_ok() == (k != 2 || caps.rollback), "C09 edit-config: built iff the error-option value is permitted");
        kani::cover!(r.is_err(), "rollback-on-error refused");
        std::mem::forget(r);
        k += 1;
    }
    std::mem::forget(ctx);
}

#[kani::proof]
#[kani::unwind(16)]
fn c09_url() {
    let caps = Caps::any();
    let ctx = caps.context();
    let mut s = 0u8;
    while s < 3 {
        let r = new_decomposed::<EditConfig<Opaque>, _>(&ctx, |b| b.target(Datastore::Candidate)?.url(url_for(s))?.finish());
        assert!(r.is_ok() == (caps.candidate && caps.scheme_ok(s)), "C09 edit-config url: built iff the URL scheme is advertised in :url");
        let d = new_decomposed::<DeleteConfig, _>(&ctx, |b| b.url(url_for(s))?.finish());
        assert!(d.is_ok() == caps.scheme_ok(s), "C09 delete-config url: built iff the URL scheme is advertised in :url");
        kani::cover!(r.is_ok() && s == 1, "ftp url accepted");
        kani::cover!(d.is_err() && caps.url, "url refused although :url advertised (other scheme)");
        std::mem::forget((r, d));
        s += 1;
    }
    std::mem::forget(ctx);
}

#[cfg(feature = "junos")]
#[kani::proof]
#[kani::unwind(16)]
fn c09_junos_ops() {
    use crate::message::rpc::operation::junos::{CloseConfiguration, CommitConfiguration, LockConfiguration, OpenConfiguration, UnlockConfiguration};
    let caps = Caps::any();
    let ctx = caps.context();
    let o = new_decomposed::<OpenConfiguration, _>(&ctx, |b| b.ephemeral(Some("x")).finish());
    let c = new_decomposed::<CloseConfiguration, _>(&ctx, |b| b.finish());
    let l = new_decomposed::<LockConfiguration, _>(&ctx, |b| b.finish());
    let u = new_decomposed::<UnlockConfiguration, _>(&ctx, |b| b.finish());
    let cm = new_decomposed::<CommitConfiguration, _>(&ctx, |b| b.finish());
    assert!(o.is_ok() == caps.junos, "C09 open-configuration: built iff the Junos capability is advertised");
    assert!(c.is_ok() == caps.junos, "C09 close-configuration: built iff the Junos capability is advertised");
    assert!(l.is_ok() == caps.junos, "C09 lock-configuration: built iff the Junos capability is advertised");
    assert!(u.is_ok() == caps.junos, "C09 unlock-configuration: built iff the Junos capability is advertised");
    assert!(cm.is_ok() == caps.junos, "C09 commit-configuration: built iff the Junos capability is advertised");
    kani::cover!(o.is_ok(), "junos op accepted");
    kani::cover!(o.is_err(), "junos op refused");
    std::mem::forget((o, c, l, u, cm));
    std::mem::forget(ctx);
}

/// The real `Operation::new`: the operation-level gate lets the builder run iff the required
/// capability is advertised (executed for one operation; the method is a trait default shared
/// by all of them).
#[kani::proof]
#[kani::unwind(16)]
fn c09_operation_new_gate() {
    let caps = Caps::any();
    let ctx = caps.context();
    let r = DiscardChanges::new(&ctx, |b| b.finish());
    assert!(r.is_ok() == caps.candidate, "C09 Operation::new: operation gated by its required capability");
    kani::cover!(r.is_ok(), "gate open");
    kani::cover!(r.is_err(), "gate closed");
    std::mem::forget(r);
    std::mem::forget(ctx);
}

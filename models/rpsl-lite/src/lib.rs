//! Verification model of `rpsl` (agent build only): an `MpFilterExpr` is an opaque token.
//! `FromStr` accepts exactly the strings of the pool a harness declares
//! ([`model::set_pool`]); everything else is a parse error.  The properties that are *about*
//! RPSL parsing / evaluation (C11, C17) are not claimed.
pub mod model {
    /// (text, parses?) — text as it appears (trimmed) in the annotation
    pub static DEFAULT_POOL: [&str; 3] = ["AS-FOO", "AS65000", "{ 192.0.2.0/24^+ }"];
    static mut POOL: &'static [&'static str] = &DEFAULT_POOL;

    pub fn set_pool(p: &'static [&'static str]) {
        unsafe { POOL = p }
    }
    pub fn pool() -> &'static [&'static str] {
        unsafe { POOL }
    }
}

pub mod error {
    #[derive(Debug, Clone, Copy, PartialEq, Eq)]
    pub struct ParseError;
    impl std::fmt::Display for ParseError {
        fn fmt(&self, f: &mut std::fmt::Formatter<'_>) -> std::fmt::Result {
            f.write_str("rpsl parse error (model)")
        }
    }
    impl std::error::Error for ParseError {}
}

pub mod expr {
    use super::error::ParseError;
    use super::model;

    /// Opaque filter expression: index into the declared pool.
    #[derive(Debug, Clone, Copy, PartialEq, Eq, Hash)]
    pub struct MpFilterExpr(pub u8);

    impl MpFilterExpr {
        /// Model hook
        pub fn pool_index(&self) -> u8 {
            self.0
        }
    }

    impl std::str::FromStr for MpFilterExpr {
        type Err = ParseError;
        fn from_str(s: &str) -> Result<Self, ParseError> {
            let t = s.trim();
            let p = model::pool();
            let mut i = 0;
            while i < p.len() {
                if p[i] == t {
                    return Ok(MpFilterExpr(i as u8));
                }
                i += 1;
            }
            Err(ParseError)
        }
    }

    impl std::fmt::Display for MpFilterExpr {
        fn fmt(&self, f: &mut std::fmt::Formatter<'_>) -> std::fmt::Result {
            let p = model::pool();
            f.write_str(p[self.0 as usize % p.len()])
        }
    }
}

"""Registry of properties -> Kani harnesses, bounds, loop rules (see DESIGN.md §5 and §9)."""
import re

DEFAULT_TIMEOUT = {"quick": 900, "thorough": 3000, "experimental": 3600}

# regex on the demangled function name (or the loop id) -> unwind bound for that loop.
# First match wins (harness-specific rules are tried after these defaults).
DEFAULT_LOOP_RULES = {
}
# memcmp's loop belongs to the CPROVER library (added by cbmc at verification time, so it is not
# in the goto binary's loop list); 43 > the longest byte string compared (41-byte namespace URI)
ALWAYS_UNWINDSET = ["memcmp.0:43"]

COMMON_ASSUMPTIONS = [
    "verification build: /repo sources copied verbatim; only `std::collections` paths rewritten to the slot-array vcollections model; harness modules appended under cfg(kani)",
    "model crates in the trusted base: verif-tracing (no-op macros), memchr (naive loops), quick-xml (event tapes, interned names), tokio (leaf futures over model state), tokio-rustls / russh / russh-keys (type shells over scripted streams), vcollections, rpsl-lite / bgpfu-lite (agent build)",
    "Kani --no-memory-safety-checks: pointer-validity checks are off (bgpfu-rs contains no unsafe code; model crates' unsafe blocks are trusted); panics, arithmetic overflow, slice bounds and unwinding assertions stay on",
    "bounded: every claim holds only within the bounds listed per harness; unwinding assertions make a too-small bound fail instead of truncating",
]

NETCONF = "bgpfu-netconf"
AGENT = "bgpfu-junos-agent"

# module (inside the verification copy) that holds each harness, by name prefix; used for
# `--harness <module>::<name> --exact` (a bare name is a substring pattern for Kani)
MODULES = [
    (r"^c0[67]_tls_", "transport::tls::verif_tls"),
    (r"^c0[67]_junos_local_", "transport::junos_local::verif_junos_local"),
    (r"^c0[67]_ssh_|^c20_password", "transport::ssh::verif_ssh"),
    (r"^c10_url_text", "message::rpc::operation::verif_ops"),
    (r"^c09_|^c05_|^c18_|^c12_negotiation|^c10_commit|^c10_url|^c10_junos", "session::verif_session"),
    (r"^c12_server_hello|^c12_capabilit|^c13_capabilit|^c13_session_id", "message::hello::verif_hello"),
    (r"^c08_load_|^c10_load_configuration", "message::rpc::operation::junos::load_configuration::verif_load"),
    (r"^c08_rpc_error_reader|^c13_rpc_error_prefix", "message::rpc::error::verif_error"),
    (r"^c08_|^c13_|^c14_reply|^cal_", "message::rpc::verif_replies"),
    (r"^c19_frequency", "cli::verif_cli"),
    (r"^c19_slice_", "task::verif_task_slice"),
    (r"^c16_", "policies::fetch::verif_fetch"),
    (r"^c03_|^c15_", "policies::verif_policies"),
    (r"^c19_", "task::verif_task"),
]

CHECKS = {}


def harness(name, package=NETCONF, **kw):
    d = {"name": name, "package": package}
    for pat, mod in MODULES:
        if re.search(pat, name):
            d["mod"] = mod
            break
    d.update(kw)
    return d


# ------------------------------------------------------------------------------------------- C06/C07

FRAMING_LOOPS = {
    r"Finder.*find\.0$": 7,      # inner needle comparison (needle = 6 bytes)
    r"Finder.*find\.1$": 12,     # outer scan over the buffer (<= 16 bytes -> <= 11 start positions)
    r"RecvHandle.*recv": 6,       # the read loop: <= 4 chunks / 1 chunk + 2 close answers, + exit
    r"run_bounded": 2,
}

SSH_LOOPS = {
    r"Finder.*find\.0$": 7,
    r"Finder.*find\.1$": 12,
    r"Ssh.*connect": 8,           # pump loop: <= 4 data packets + 2 close answers + exit
    r"run_bounded": 3,
}

CHECKS["C06"] = {
    "crates": ["netconf"],
    "explanation": "tls::Receiver::recv and junos_local::Receiver::recv (real bytes::BytesMut, memchr model) are executed symbolically over "
                   "scripted streams: (quick) one message with payload 0..2 bytes over {x,],>} cut into 1..3 non-empty chunks at every "
                   "position - including the five positions inside the delimiter - and two messages with payload 0..1 bytes in 1..2 chunks "
                   "(several messages per read); (thorough) two messages, payload 0..2, 1..4 chunks.  Each recv() must return exactly the "
                   "next delimiter-terminated message after exactly the reads needed to deliver its last delimiter byte.",
    "assumptions": ["reads deliver exactly the scripted chunks; TLS record reassembly below read_buf is not modelled",
                    "BytesMut::reserve_inner (grow path) replaced by a stub that asserts it is unreachable; the 1 KiB receive buffer is replaced by a 32-byte one",
                    "the SSH pump (transport/ssh.rs) is NOT covered: its harness (c06_ssh_segmentation, kept in the tree) did not finish in 90 min"],
    "harnesses": [
        harness("c06_tls_one_message_cuts", functions=["transport::tls::Receiver::recv", "bytes::BytesMut", "memchr::memmem::Finder::find (model)"],
                bounds="1 message, payload<=2 bytes over {x,],>}, 1..3 chunks, 1 poll", loops=FRAMING_LOOPS, stubbing=True),
        harness("c06_tls_two_messages", functions=["transport::tls::Receiver::recv"],
                bounds="2 messages, payload<=1 byte, 1..2 chunks", loops=FRAMING_LOOPS, stubbing=True),
        harness("c06_junos_local_one_message_cuts", functions=["transport::junos_local::Receiver::recv"],
                bounds="as c06_tls_one_message_cuts", loops=FRAMING_LOOPS, stubbing=True),
        harness("c06_junos_local_two_messages", functions=["transport::junos_local::Receiver::recv"],
                bounds="as c06_tls_two_messages", loops=FRAMING_LOOPS, stubbing=True),
        harness("c06_tls_segmentation", functions=["transport::tls::Receiver::recv"],
                bounds="2 messages, payload<=2 bytes, 1..4 chunks", loops=FRAMING_LOOPS, stubbing=True, tiers=["thorough"], mem_gb=30),
        harness("c06_junos_local_segmentation", functions=["transport::junos_local::Receiver::recv"],
                bounds="2 messages, payload<=2 bytes, 1..4 chunks", loops=FRAMING_LOOPS, stubbing=True, tiers=["thorough"], mem_gb=30),
    ],
}

CHECKS["C07"] = {
    "crates": ["netconf"],
    "explanation": "tls/junos_local Receiver::recv executed symbolically over: a strict prefix (possibly empty, possibly ending inside the "
                   "delimiter) of one message, then orderly close (every further read returns 0) or abrupt close (every further read fails). "
                   "recv() must complete with an error; a loop that keeps reading is detected by the stream model's overrun flag (reads after "
                   "close are answered at most twice, then Pending).",
    "assumptions": ["reads deliver exactly the scripted chunks; close is what read_buf reports (Ok(0) / Err)",
                    "session-level propagation (pending RPCs fail once recv() fails) follows from Session::recv's `?` and is exercised by the C05 harnesses, not here",
                    "the SSH pump (transport/ssh.rs) is NOT covered: c07_ssh_disconnect (kept in the tree) did not finish in 90 min"],
    "harnesses": [
        harness("c07_tls_disconnect", functions=["transport::tls::Receiver::recv"],
                bounds="strict prefix of one message (payload<=2) then Eof/Abort, 1 poll, 32-byte buffer", loops=FRAMING_LOOPS, stubbing=True),
        harness("c07_junos_local_disconnect", functions=["transport::junos_local::Receiver::recv"], bounds="as c07_tls_disconnect", loops=FRAMING_LOOPS, stubbing=True),
    ],
}

# kept for development; not part of any tier (did not finish in 90 minutes)
SSH_EXPERIMENTAL = [
    harness("c06_ssh_segmentation", loops=SSH_LOOPS, stubbing=True, tiers=["experimental"], timeout={"experimental": 5400}, mem_gb=30),
    harness("c07_ssh_disconnect", loops=SSH_LOOPS, stubbing=True, tiers=["experimental"], timeout={"experimental": 5400}, mem_gb=30),
]
CHECKS["C06"]["harnesses"].append(SSH_EXPERIMENTAL[0])
CHECKS["C07"]["harnesses"].append(SSH_EXPERIMENTAL[1])

# ------------------------------------------------------------------------------------------- C09

C09_BOUNDS = "every subset of 13 capability bits (with every combination of the url schemes file/ftp/http) x every parameter choice of the operation, decided in one query"
_C09 = [
    ("c09_get_op", ["Get::new", "get::Builder::filter/finish", "Filter::try_use"]),
    ("c09_get_config_running", ["GetConfig::new", "get_config::Builder::source/filter/finish", "Datastore::try_as_source", "Filter::try_use"]),
    ("c09_get_config_candidate", ["get_config::Builder::source/filter/finish"]),
    ("c09_get_config_startup", ["get_config::Builder::source/filter/finish"]),
    ("c09_lock_unlock", ["Lock::new", "Unlock::new", "lock::Builder::target/finish", "Datastore::try_as_lock_target"]),
    ("c09_commit_plain", ["Commit::new", "commit::Builder::confirmed/confirm_timeout/finish"]),
    ("c09_commit_persist", ["commit::Builder::persist/finish"]),
    ("c09_commit_persist_id", ["commit::Builder::persist_id/finish"]),
    ("c09_commit_persist_both", ["commit::Builder::persist/persist_id/finish"]),
    ("c09_simple_ops", ["CancelCommit::new", "DiscardChanges::new", "KillSession::new", "CloseSession::new"]),
    ("c09_validate_inline_and_running", ["Validate::new", "validate::Builder::source/config/finish", "Datastore::try_as_source"]),
    ("c09_validate_candidate_startup", ["validate::Builder::source/finish", "Datastore::try_as_source"]),
    ("c09_delete_config", ["DeleteConfig::new", "delete_config::Builder::target/finish", "Datastore::try_as_target"]),
    ("c09_copy_config_to_running", ["CopyConfig::new", "copy_config::Builder::target/source/config/finish"]),
    ("c09_copy_config_to_candidate", ["copy_config::Builder::target/source/config/finish"]),
    ("c09_copy_config_to_startup", ["copy_config::Builder::target/source/config/finish"]),
    ("c09_edit_config_target", ["EditConfig::new", "edit_config::Builder::target/config/finish", "Datastore::try_as_target"]),
    ("c09_edit_config_test_then_set", ["edit_config::Builder::test_option", "TestOption::try_use"]),
    ("c09_edit_config_test_set", ["edit_config::Builder::test_option", "TestOption::try_use"]),
    ("c09_edit_config_test_only", ["edit_config::Builder::test_option", "TestOption::try_use"]),
    ("c09_edit_config_error_option", ["edit_config::Builder::error_option", "ErrorOption::try_use"]),
    ("c09_url_file", ["Url::try_new", "edit_config::Builder::url", "delete_config::Builder::url"]),
    ("c09_url_ftp", ["Url::try_new"]),
    ("c09_url_http", ["Url::try_new"]),
    ("c09_operation_new_gate", ["Operation::new (trait default method, instantiated for DiscardChanges)"]),
    ("c09_junos_ops", ["OpenConfiguration::new", "CloseConfiguration::new", "LockConfiguration::new", "UnlockConfiguration::new", "CommitConfiguration::new"]),
]
# quick tier: one harness per operation family / mechanism; thorough tier: all of them
_C09_QUICK = {"c09_get_op", "c09_get_config_candidate", "c09_lock_unlock", "c09_commit_persist", "c09_simple_ops",
              "c09_validate_candidate_startup", "c09_delete_config", "c09_copy_config_to_candidate", "c09_edit_config_target",
              "c09_edit_config_test_only", "c09_edit_config_error_option", "c09_operation_new_gate", "c09_junos_ops"}
CHECKS["C09"] = {
    "crates": ["netconf"],
    "explanation": "Operation::new's two halves (the REQUIRED_CAPABILITIES gate and the builder run: every builder method and finish() of each "
                   "operation) are executed symbolically against a Context whose server capability set is built from 13 symbolic bits; the "
                   "result (request built / refused) is compared with the RFC 6241 section 8 requirement table written independently in the "
                   "harness.  Parameter values with small domains are enumerated by concrete loops inside each harness.  The real "
                   "Operation::new is executed in c09_operation_new_gate.",
    "assumptions": ["observation point is Operation::new (what Session::rpc calls before anything is written)",
                    "edit-config with target=startup is accepted with :startup as the code does (RFC 6241 8.7.5 does not list it; not decided here)",
                    "URL scheme checks (Url::try_new over iri-string) are NOT covered: the c09_url_* harnesses need more than 50 min and are kept as experimental",
                    "the <validate> operation is NOT covered: c09_validate_* passed with the first version of the models (24 GB) but exceed 45 GB in the solver since the "
                    "model event types were flattened (cause not found in the time available); kept as experimental",
                    "the :url scheme list always has three entries, a scheme that is not advertised being replaced by a junk scheme of the same length"],
    "harnesses": [
        harness(n, functions=f, bounds=C09_BOUNDS, target="c09_%d" % (i % 8), mem_gb=36,
                **({"tiers": ["experimental"]} if n.startswith("c09_url") or n.startswith("c09_validate") else
                   {} if n in _C09_QUICK else {"tiers": ["thorough"]}))
        for i, (n, f) in enumerate(_C09)
    ],
}

# ------------------------------------------------------------------------------------------- C08

READER_LOOPS = {
    r"ReadXml.*read_xml": 7,      # reader loops: <= 2 cells per item + End + exit
    r"seek_end": 4,               # leaf content: text, end (+1)
    r"name_id_of": 14,
    r"drop_glue.*InfoElement": 1,  # error-info is always empty in these harnesses (asserted by the unwinding assertion)
    r"drop_glue": 4,
    r"is_whitespace": 20,
    r"from_ascii": 5,
}

CHECKS["C08"] = {
    "crates": ["netconf"],
    "explanation": "Each reply reader (EmptyReply, DataReply<Opaque>, BareReply, load_configuration::Reply) is executed symbolically over every reply "
                   "whose content is a sequence of at most 2 elements: the element sequences are walked by a concrete loop inside one harness per "
                   "reader, the leaf values (severity of every <rpc-error>, value 0..3 of a <load-error-count>) are symbolic.  Quick: sequences "
                   "over {<ok/>, <rpc-error>, <data>} (13 per reader; load-configuration: {<ok/>, <rpc-error>, <load-error-count>} inside "
                   "<load-configuration-results>, plus the reply without a results element and the empty one).  Thorough: all 8 element kinds of "
                   "the reply grammar (adds <ok></ok>, comment, unexpected element, <ok/> in a foreign namespace, stray text: 73 sequences per "
                   "reader; load-configuration 6 kinds, 43 sequences).  Asserted for every sequence: success only with the reader's positive "
                   "indication and without an rpc-error of severity error before it (BareReply: without any rpc-error); reported errors are "
                   "exactly the reply's rpc-errors, in order.  Compositional: rpc::Error::read_xml and Opaque::read_xml are replaced by summary "
                   "stubs whose preconditions are asserted; Opaque::read_xml is checked on its own in c08_opaque_reader.",
    "assumptions": ["event-level: the quick-xml model replays event tapes; byte-level tokenisation is quick-xml's",
                    "replies with more than 2 elements are outside the claim; the element *sequences* are enumerated, not symbolic (a tape window with a symbolic "
                    "element kind costs 300-500 s per reader and 30 GB, DESIGN.md 9.2/9.6)",
                    "summary stub for rpc::Error::read_xml (asserts it is called on an <rpc-error> start tag, consumes the element, returns the severity the tape declares); "
                    "the real rpc::Error::read_xml is NOT covered (c08_rpc_error_reader and c08_rpc_error_reader_layouts run out of memory; kept as experimental)",
                    "summary stub for Opaque::read_xml in the outer-reader harnesses (asserts it is called on <data>, consumes the element); the real one is checked in c08_opaque_reader",
                    "Errors::new / Errors::push (one-line Vec wrappers) replaced by a preallocated, never-reallocating version that asserts len < 4"],
    "design_ref": "DESIGN.md 9.6",
    "harnesses": [],
}

# split on the first item: quick tier = the 4 kinds C08 is about (+ the empty reply), second item from the same 4 kinds;
# thorough tier = all 9 first kinds, second item from all 9 kinds (feature verif_deep)
_C08_QUICK_FIRST = ["empty", "first_ok", "first_err_error", "first_err_warning", "first_data"]
_C08_DEEP_FIRST = ["first_ok_pair", "first_comment", "first_other", "first_foreign_ok", "first_text"]
_C08_READERS = [
    ("c08_empty_reply", ["EmptyReply::read_xml"]),
    ("c08_data_reply", ["DataReply::<Opaque>::read_xml"]),
    ("c08_bare_reply", ["junos::BareReply::read_xml"]),
]
# Splits: the first item is concrete; for first items after which the reader goes on reading, there is one harness per
# *family* of the (optional) second item - items sharing an element name, see Fam in harness/netconf/replies.rs -, for first
# items that end the reading at once a single harness with an arbitrary second item.
_FIRSTS = ["ok", "err_error", "err_warning", "data", "ok_pair", "comment", "other", "foreign_ok", "text"]
_FAMS = ["ok", "err", "data", "ok_pair", "comment", "other", "foreign_ok", "text"]
_QUICK_FIRSTS = {"ok", "err_error", "err_warning", "data"}
_QUICK_FAMS = {"ok", "err", "data"}
_CONT = {"c08_empty_reply": ["ok", "ok_pair", "err_error", "err_warning", "comment"],
         "c08_data_reply": ["data", "err_error", "err_warning", "comment"],
         "c08_bare_reply": ["err_error", "err_warning", "comment"]}
_k = 0


# measured on this machine (DESIGN.md 9.6): quick = decided in < 3 min with < 20 GB; thorough = < 15 min with < 30 GB;
# everything else did not finish (30 GB / 50 min) and is kept as "experimental" (in no tier, never part of a claim)
# The split harnesses (one per concrete first item, symbolic second item) are superseded by the sequence harnesses below,
# which cover the same sequences at a fraction of the cost; they stay in the tree as "experimental" (in no tier).
_C08_QUICK = set()
_C08_THOROUGH = set()


def _c08(name, functions, bounds, quick):
    global _k
    if name in _C08_QUICK:
        kw = {"mem_gb": 20}
    elif name in _C08_THOROUGH:
        kw = {"tiers": ["thorough"], "mem_gb": 30, "timeout": {"thorough": 2400}}
    else:
        kw = {"tiers": ["experimental"], "mem_gb": 30}
    CHECKS["C08"]["harnesses"].append(harness(name, functions=functions, bounds=bounds, loops=READER_LOOPS, stubbing=True,
                                              target="c08_%d" % (_k % 8), **kw))
    _k += 1


for _r, _f in _C08_READERS:
    _c08(_r + "_empty", _f, "reply without content", True)
    for _first in _FIRSTS:
        if _first in _CONT[_r]:
            for _fam in _FAMS:
                _c08("%s_%s_then_%s" % (_r, _first, _fam), _f,
                     "first item %s; then nothing or an item of family %s (rpc-error: symbolic severity)" % (_first, _fam),
                     _first in _QUICK_FIRSTS and _fam in _QUICK_FAMS)
        else:
            _c08("%s_first_%s" % (_r, _first), _f, "first item %s (ends the reading); then nothing or any item" % _first, _first in _QUICK_FIRSTS)
_LFIRSTS = ["ok", "err_error", "err_warning", "count0", "count1", "count2", "ok_pair", "comment", "other"]
_LFAMS = ["ok", "err", "count", "ok_pair", "comment", "other"]
_LF = ["junos::load_configuration::Reply::read_xml"]
_c08("c08_load_reply_no_results", _LF, "reply without <load-configuration-results>", True)
_c08("c08_load_reply_empty_results", _LF, "empty <load-configuration-results>", True)
for _first in _LFIRSTS:
    if _first == "other":
        _c08("c08_load_reply_first_other", _LF, "first inner item: unexpected element; then nothing or any item", False)
    else:
        for _fam in _LFAMS:
            _c08("c08_load_reply_%s_then_%s" % (_first, _fam), _LF,
                 "inside <load-configuration-results>: %s; then nothing or an item of family %s (rpc-error: symbolic severity; load-error-count: 0..3)" % (_first, _fam),
                 _first in ("ok", "err_error", "err_warning", "count1") and _fam in ("ok", "err", "count"))
SEQ_LOOPS = dict(READER_LOOPS)
SEQ_LOOPS.update({r"for_each_sequence": 10})
for _r, _f in _C08_READERS:
    CHECKS["C08"]["harnesses"].append(harness(
        _r + "_sequences", functions=_f, loops=SEQ_LOOPS, stubbing=True, mem_gb=24, target=_r + "_seq",
        bounds="every element sequence of length <= 2 over {<ok/>, <rpc-error>, <data>} (13 sequences, walked by a concrete loop), severity of every rpc-error symbolic"))
    CHECKS["C08"]["harnesses"].append(harness(
        _r + "_sequences_full", functions=_f, loops=SEQ_LOOPS, stubbing=True, mem_gb=30, target=_r + "_seqf", tiers=["thorough"], timeout={"thorough": 3000},
        bounds="every element sequence of length <= 2 over the 8 element kinds of the reply grammar (73 sequences), severity of every rpc-error symbolic"))
CHECKS["C08"]["harnesses"].append(harness(
    "c08_load_reply_sequences", functions=_LF, loops=dict(SEQ_LOOPS, **{r"load_sequences": 10}), stubbing=True, mem_gb=24, target="c08_load_seq",
    bounds="no results element; empty results; every sequence of length <= 2 over {<ok/>, <rpc-error>, <load-error-count>} inside <load-configuration-results> "
           "(13 sequences, walked by a concrete loop); rpc-error severities and counts 0..3 symbolic"))
CHECKS["C08"]["harnesses"].append(harness(
    "c08_load_reply_sequences_full", functions=_LF, loops=dict(SEQ_LOOPS, **{r"load_sequences": 10}), stubbing=True, mem_gb=30, target="c08_load_seqf",
    tiers=["thorough"], timeout={"thorough": 3000},
    bounds="as c08_load_reply_sequences over all 6 inner element kinds (adds <ok></ok>, comment, unexpected element; 43 sequences)"))
CHECKS["C08"]["harnesses"].append(
    harness("c08_load_reply_error_then_ok", functions=["junos::load_configuration::Reply::read_xml"],
            bounds="<load-configuration-results>: rpc-error of symbolic severity (error/warning), then <ok/>", loops=READER_LOOPS, stubbing=True, mem_gb=24,
            timeout={"quick": 1500, "thorough": 3000}, target="c08_lr"))
CHECKS["C08"]["harnesses"].append(
    harness("c08_opaque_reader", functions=["operation::Opaque::read_xml"], bounds="<data>x</data> closed / unterminated", loops=READER_LOOPS, mem_gb=16, target="c08_%d" % (_k % 8)))
CHECKS["C08"]["harnesses"].append(
    harness("c08_rpc_error_reader_layouts", functions=["rpc::Error::read_xml", "Type/Tag/Severity::from_str"],
            bounds="mandatory children in all 6 orders, each single one missing, none (10 layouts, concrete loop); severity text symbolic over {error, warning, ' error ', junk}",
            loops=dict(READER_LOOPS, **{r"c08_rpc_error_reader_layouts": 11}), mem_gb=30, timeout={"quick": 1500, "thorough": 3000}, tiers=["experimental"]))
CHECKS["C08"]["harnesses"].append(
    harness("c08_rpc_error_reader", functions=["rpc::Error::read_xml", "Type/Tag/Severity::from_str"],
            bounds="three mandatory children in all 6 orders, each present/absent, 4 severity texts", loops=READER_LOOPS, mem_gb=30,
            tiers=["experimental"], timeout={"experimental": 3600}))

# ------------------------------------------------------------------------------------------- C05 / C18 / C12

SESSION_LOOPS = {
    r"ReadXml.*read_xml|from_xml": 6,
    r"seek_end": 5,
    r"name_id_of": 14,
    r"Session.*recv": 4,
    r"run_bounded": 3,
    r"from_ascii": 4,
    r"resolve_attribute": 3,
}

HELLO_LOOPS = {r"drop_glue.*Capability": 15, r"from_ascii": 12}
HELLO_LOOPS.update(READER_LOOPS)
HELLO_LOOPS.update({r"vcollections": 15, r"from_ascii": 12})

CHECKS["C05"] = {
    "crates": ["netconf"],
    "explanation": "The two mechanisms the property rests on, each as one step from every state: (1) OutstandingRequest::take from every slot state "
                   "(Pending, Ready(parked reply 1 or 2), Complete): a pending slot stays pending and yields nothing, a ready slot yields exactly the "
                   "parked reply (with its own message-id) once and becomes complete, a complete slot is refused; (2) MessageId::increment for every "
                   "counter value: three consecutive ids are strictly increasing, i.e. fresh.  The loop that connects them (Session::recv: lock "
                   "hand-over, parking a reply under its id, delivery to the waiter) is NOT decided: its one-step harnesses exceed 30 GB.",
    "assumptions": ["NOT covered: Session::recv / Session::rpc themselves (interleavings of waiters, parking of replies read for other requests, liveness); "
                    "harnesses c05_recv_* are kept as experimental (30 GB / 20 min exceeded; root cause in DESIGN.md 9.2)",
                    "message-id freshness is claimed for counters below usize::MAX - 2 (a session that sent 2^64 requests is outside the claim)"],
    "harnesses": [
        harness("c05_slot_take_step", functions=["OutstandingRequest::take"], bounds="every slot state (Pending / Ready(reply 1 or 2) / Complete), one call"),
        harness("c05_message_id_is_fresh", functions=["rpc::MessageId::increment"], bounds="every counter value < usize::MAX - 2, three consecutive calls"),
        harness("c05_recv_step_one_arrival", functions=["Session::recv", "OutstandingRequest::take", "PartialReply::recv/read_xml", "Reply::try_from/read_xml", "DataReply::read_xml", "MessageId::try_from"],
                bounds="waiter for id 1; map entries 1,2 each absent/Pending/Ready/Complete; <=1 arriving reply with id in {1,2,9}; 2 polls", loops=SESSION_LOOPS, stubbing=True,
                tiers=["experimental"], mem_gb=30),
        harness("c05_recv_after_lock_handover", functions=["Session::recv"],
                bounds="2 outstanding requests; the waiter's reply is parked by the other waiter while it waits for the receive lock; 1+2 polls", loops=SESSION_LOOPS, stubbing=True,
                tiers=["experimental"], mem_gb=30),
        harness("c05_recv_step_two_arrivals", functions=["Session::recv"],
                bounds="as c05_recv_step_one_arrival with <=2 arriving replies", loops=SESSION_LOOPS, stubbing=True, tiers=["experimental"], mem_gb=40),
    ],
}

CHECKS["C18"] = {
    "crates": ["netconf"],
    "explanation": "Session::recv futures are created, polled to a suspension point and dropped; afterwards the locks must be free and the "
                   "other outstanding request must complete with its own reply once that arrives.",
    "assumptions": ["tokio Mutex model; in-memory transport whose receive buffer lives in the handle",
                    "PartialReply::read_xml and Opaque::read_xml summarised as in C05",
                    "drop points covered: never polled, suspended in the transport read (lock holder), suspended on the map lock with a reply in hand"],
    "harnesses": [
        harness("c18_drop_while_waiting_for_transport", functions=["Session::recv (future drop glue)", "tokio::sync::Mutex guard release (model)"],
                bounds="2 outstanding requests; reader dropped unpolled or after 1 poll; then the other reply arrives", loops=SESSION_LOOPS, stubbing=True,
                timeout={"quick": 1500, "thorough": 3600}, mem_gb=30),
        harness("c18_drop_at_map_lock_with_reply_in_hand", functions=["Session::recv (future drop glue)"], expect="finding",
                bounds="reader has read request 2's reply and waits for the map lock held by a sending rpc(); dropped there", loops=SESSION_LOOPS, stubbing=True,
                timeout={"quick": 1500, "thorough": 3600}, mem_gb=30),
    ],
}

CHECKS["C12"] = {
    "crates": ["netconf"],
    "explanation": "(1) Capabilities::highest_common_version of the client's default hello against every server subset of {:base:1.0, :base:1.1, "
                   ":candidate}, and the framing of the first request against the negotiated version (RFC 6242 4.1/4.2).  (2) ServerHello::read_xml "
                   "over every <hello> whose children are a sequence of length <= 3 over {session-id, capabilities} (12 layouts x session-id texts {1, 0, 4294967296} in the quick tier, {1, 4294967295, 0, 4294967296, -1, x} in the thorough tier, walked by "
                   "concrete loops in four harnesses; the solver decides every branch of the reader that does not fold): accepted iff exactly one "
                   "<capabilities> and exactly one session-id with a valid non-zero 32-bit value, and the reported id is the hello's.  (3) "
                   "Capabilities::read_xml over <capabilities> holding any subset of {:base:1.0, :base:1.1}: the set read is the set sent.  "
                   "Capability::from_str itself (URI validation by iri-string) is summarised, see assumptions.",
    "assumptions": ["event-level hello tapes; namespace prefix choice is resolved inside quick-xml",
                    "compositional: Capabilities::read_xml is replaced by a summary stub (precondition asserted) in the hello-sequence harnesses and checked on "
                    "its own in c12_capabilities_reader; Capability::from_str is replaced by a summary stub there (by content, for the URIs of the harness table); the real function is NOT covered: its harness "
                    "c12_capability_from_str (8 concrete URIs) needs 17 min of symbolic execution and then exhausts the memory limit in Kani's result processing (kept as experimental)",
                    "both orders of the simultaneous hello exchange are not distinguished (try_join! over a send that cannot fail)"],
    "harnesses": [
        harness("c12_negotiation_and_framing", functions=["ClientHello::default", "Capabilities::highest_common_version", "rpc::Request::to_xml (ClientMsg::to_xml)"],
                bounds="server advertises any subset of {:base:1.0, :base:1.1, :candidate}", loops={r"write_escaped|from_slice|Inline": 45}),
    ] + [
        harness("c12_server_hello_sequences_%s" % g, functions=["ServerHello::read_xml", "SessionId::from_str"],
                bounds="children of <hello>: layouts %s of the 12 sequences of length <= 3 over {session-id, capabilities} (concrete loop); "
                       "session-id text from {1, 0, 4294967296} (walked concretely as well: 9 hellos per harness); capabilities = {:base:1.0} (summarised reader)" % r,
                deep_bounds="as quick, with all six session-id texts {1, 4294967295, 0, 4294967296, -1, x}", deep=True,
                loops=HELLO_LOOPS, stubbing=True, timeout={"quick": 800, "thorough": 3600}, mem_gb=36, target="c12_hs_%s" % g)
        for g, r in (("a", "1-3 (none / sid / caps)"), ("b", "4-6 (sid,sid / sid,caps / caps,sid)"), ("c", "7-9 (three children, one caps)"), ("d", "10-12 (sid x3 / caps x2)"))
    ] + [
        harness("c12_server_hello_session_id_after_capabilities", functions=["ServerHello::read_xml", "SessionId::from_str"],
                bounds="<capabilities> (summarised reader), then one or two <session-id>; text from {1, 4294967295, 0, 4294967296, -1, x}",
                loops=HELLO_LOOPS, stubbing=True, tiers=["experimental"], mem_gb=30),
        harness("c12_server_hello_session_id_before_capabilities", functions=["ServerHello::read_xml", "SessionId::from_str"],
                bounds="<session-id>, <capabilities> (summarised reader), possibly a second <session-id>; same 6 texts",
                loops=HELLO_LOOPS, stubbing=True, tiers=["experimental"], mem_gb=30),
        harness("c12_server_hello_missing_parts", functions=["ServerHello::read_xml"],
                bounds="hello with only <capabilities>, only <session-id>, or neither", loops=HELLO_LOOPS, stubbing=True, tiers=["experimental"], mem_gb=30),
        harness("c12_capabilities_reader", functions=["Capabilities::read_xml"],
                bounds="<capabilities> holding any subset of {:base:1.0, :base:1.1}",
                loops=HELLO_LOOPS, stubbing=True, timeout={"quick": 1500, "thorough": 3600}, mem_gb=30),
        harness("c12_capability_from_str", functions=["Capability::from_str", "iri_string::types::UriStr::new"],
                bounds="8 concrete URIs (all standard capabilities' shapes, Junos, unknown, invalid)", always_unwindset=["memcmp.0:70"], tiers=["experimental"], mem_gb=30),
    ],
}

CHECKS["C13"] = {
    "crates": ["netconf"],
    "explanation": "2-safety harnesses at event level: a reader is run on a tape and on information-preserving rewrites of it and must reach the same "
                   "outcome: a comment inserted before / after the item of a one-item reply (EmptyReply, one harness per item kind: quick <ok/>, "
                   "rpc-error, <data>; thorough all 8 kinds); a comment before / after a <capability> inside <capabilities>; <ok/> vs <ok></ok>; "
                   "an XML declaration in front of <rpc-reply>; whitespace around the <session-id> text and around a <capability> URI; an <rpc-error> (with / without <error-message>) "
                   "in the default namespace vs with every element name prefixed (real rpc::Error::read_xml).",
    "assumptions": ["attribute quoting/order and inter-element whitespace are resolved inside quick-xml and invisible at event level",
                    "namespace prefix vs default namespace: decided only for the real rpc::Error::read_xml (c13_rpc_error_prefix_choice: every element name spelled nc:…, the model keeps qualified and local names apart through a table of local-part offsets; namespace resolution itself is quick-xml's); all other harnesses use unprefixed names, so qualified-name comparisons in the other readers are not run on a prefixed spelling",
                    "NOT covered: whitespace around the token-valued texts of <rpc-error> children and of message-id, comments inside DataReply / BareReply / "
                    "load-configuration results and between the children of <hello>, and the configuration readers of the agent (which match <reject/> etc. as "
                    "empty-element events only, like the two sites repaired by 1fdf0d6)"],
    "design_ref": "DESIGN.md 9.6, findings in 9.4",
    "harnesses": [
    ] + [
        harness("c13_comment_insertion_%s" % k, functions=["EmptyReply::read_xml"], bounds="reply with one item (%s); comment inserted before or after it" % k,
                loops=READER_LOOPS, stubbing=True, mem_gb=16, target="c13_%d" % (i % 4), **({} if k in ("ok", "err_error", "data") else {"tiers": ["thorough"]}))
        for i, k in enumerate(["ok", "err_error", "err_warning", "data", "ok_pair", "other", "foreign_ok", "text"])
    ] + [
        harness("c13_capabilities_comment_insertion", functions=["Capabilities::read_xml"], bounds="<capabilities> holding :base:1.0, comment before / after the <capability>",
                loops=HELLO_LOOPS, stubbing=True, mem_gb=30),
        harness("c13_session_id_whitespace", functions=["ServerHello::read_xml", "SessionId::from_str"],
                bounds="hello {capabilities (summarised), session-id 1}: compact vs session-id text padded with whitespace", loops=HELLO_LOOPS, stubbing=True, mem_gb=30),
        harness("c13_capability_whitespace", functions=["Capabilities::read_xml"],
                bounds="<capabilities> holding :base:1.0: compact vs URI padded with whitespace", loops=HELLO_LOOPS, stubbing=True, mem_gb=30),
        harness("c13_rpc_error_prefix_choice", functions=["rpc::Error::read_xml", "Type/Tag/Severity::from_str"],
                bounds="<rpc-error> with its three mandatory children, without / with <error-message>; default namespace vs every element spelled nc:…",
                loops=dict(READER_LOOPS, **{r"seek_end": 17}), mem_gb=30),  # a reader that misses an end tag scans to the end of the tape (<= 15 cells)
        harness("c13_empty_reply_ok_element_form", functions=["EmptyReply::read_xml"], bounds="<ok/> vs <ok></ok>", loops=READER_LOOPS, mem_gb=30),
        harness("c13_partial_reply_xml_declaration", functions=["PartialReply::from_xml/read_xml"], bounds="<rpc-reply><ok/></rpc-reply> with and without <?xml?>", loops=SESSION_LOOPS, mem_gb=30),
    ],
}

CHECKS["C14"] = {
    "crates": ["netconf"],
    "explanation": "Reply::<CloseSession>::from_xml (ServerMsg::from_xml, Reply::read_xml, MessageId::try_from, EmptyReply::read_xml) over tapes "
                   "of up to 4 arbitrary cells: any event kind incl. tokenizer errors and unbalanced end tags, any table name/namespace/text, "
                   "message-id text from 16 values incl. non-numeric ones.  Asserted by Kani's built-in checks: no panic, no overflow, no "
                   "out-of-bounds, all loops end within the tape.",
    "assumptions": ["bgpfu's own code over arbitrary *event* sequences; that quick-xml turns arbitrary bytes into events or errors without panicking is assumed",
                    "allocation of absurd sizes is outside CBMC's model"],
    "harnesses": [
    ] + [
        harness("c14_reply_arbitrary_events_%d" % k, functions=["ServerMsg::from_xml", "Reply::read_xml", "MessageId::try_from", "EmptyReply::read_xml"],
                bounds="exactly %d arbitrary cells, then end of input" % k, loops=READER_LOOPS, stubbing=True, mem_gb=30,
                tiers=["experimental"])
        for k in (1, 2, 3, 4)
    ],
}

CHECKS["C20"] = {
    "crates": ["netconf"],
    "explanation": "Narrow claim: the hand-written Debug impl of transport::Password is executed symbolically for every 2-byte ASCII secret and "
                   "its output must be the constant Password(\"****\") - the mechanism by which #[instrument]ed constructors and ?password "
                   "fields keep the SSH password out of the log.",
    "assumptions": ["NOT covered: which arguments the #[tracing::instrument] attributes skip (TLS key material), rustls' Debug for ClientConfig, "
                    "russh internals, the agent's logging of paths - the tracing model records nothing"],
    "harnesses": [
        harness("c20_password_debug_is_redacted", functions=["<transport::Password as Debug>::fmt"], bounds="every 2-byte ASCII secret"),
    ],
}

CHECKS["C10"] = {
    "crates": ["netconf"],
    "explanation": "LoadConfiguration<Config<&str, Text|Json, Merge>>::write_xml is executed with a symbolic 2-byte payload over {<, &, \", ], a}; "
                   "the writer model's structured log must show the payload as an escaped text node carrying exactly the caller's bytes, and "
                   "no raw access to the sink.  Url::write_xml (the <url> source / target of edit-config, copy-config, delete-config, validate) is "
                   "executed on three URLs - plain query, '&' in the query, quotes and '&'; the choice is the solver's - and the log must show the "
                   "URL as one escaped text node with exactly its bytes.",
    "assumptions": ["API-use level: that quick-xml's escape/unescape are inverse is quick-xml's contract",
                    "Url values are built from their private field with iri-string's validator stubbed to accept (the three URLs are valid RFC 3986 URIs); "
                    "Url::try_new (scheme check against :url, C09's subject) is not run - its capability scan over heap strings does not fit CBMC "
                    "(c10_url_plain / c10_url_with_metacharacters through the builder API: 7 GB / 10 min, kept as experimental); URL *texts* are concrete, not arbitrary",
                    "covered: text and JSON configuration payloads of <load-configuration>, <url> texts; NOT covered: commit tokens, ephemeral instance name, log message, "
                    "XPath select (harnesses c10_commit_tokens / c10_junos_texts_and_xpath run out of memory in the solver and are kept as experimental), the url= attribute of load-configuration, the "
                    "agent's policy names / comments, and the delimiter-uniqueness / single-document part of C10 (needs the emitted bytes)"],
    "harnesses": [
        harness("c10_load_configuration_text_payload_is_escaped", functions=["junos::load_configuration::LoadConfiguration::write_xml", "Config::write_element", "ConfigData<Text|Json>::write_data"],
                bounds="payload of 2 bytes over {<,&,\",],a}; text and json formats", loops={r"Inline.*from_slice|write_escaped": 45}, mem_gb=30),
        harness("c10_url_text_is_escaped", functions=["Url::write_xml"], stubbing=True,
                bounds="3 concrete URLs (plain query, '&' in the query, quotes and '&'), the choice symbolic; Url built from its field (Url::try_new not run), iri-string validator stubbed"),
        harness("c10_url_plain", functions=["Url::try_new", "delete_config::Builder::url", "DeleteConfig::write_xml", "Url::write_xml"],
                bounds="concrete URL http://h/c", stubbing=True, tiers=["experimental"]),
        harness("c10_url_with_metacharacters", functions=["Url::try_new", "delete_config::Builder::url", "DeleteConfig::write_xml", "Url::write_xml"],
                bounds="concrete URL http://h/?a&b='c' (the XML metacharacters a URI may contain)", stubbing=True, tiers=["experimental"]),
        harness("c10_commit_tokens", functions=["Commit::write_xml", "CancelCommit::write_xml", "commit::Builder::persist/persist_id", "Token"],
                bounds="token of 2 bytes over {<,&,\",],a}; persist, persist-id, cancel-commit persist-id", loops={r"Inline.*from_slice|write_escaped": 45}, tiers=["experimental"], mem_gb=30),
        harness("c10_junos_texts_and_xpath", functions=["OpenConfiguration::write_xml", "CommitConfiguration::write_xml", "GetConfig::write_xml", "Filter::write_xml"],
                bounds="text of 2 bytes over {<,&,\",],a}; ephemeral instance name, log message, xpath select attribute", loops={r"Inline.*from_slice|write_escaped": 45}, tiers=["experimental"], mem_gb=30),
    ],
}

CHECKS["C03"] = {
    "crates": ["netconf", "junos-agent"],
    "explanation": "Policies<Evaluated>::compare over two policies, each in every combination of {not a candidate, candidate whose evaluation "
                   "failed, candidate evaluated} x {installed, not installed}, for every iteration order of the name set: a failed evaluation "
                   "yields neither update nor delete, deletes go exactly to installed non-candidates, one policy's action is independent of "
                   "the other's state.",
    "assumptions": ["only the compare step: that an unobtainable as-set / unreachable IRR reaches eval.rs as Err (and that eval.rs maps Err to "
                    "`ranges: None`) is not executed here; the malformed-annotation case (candidate silently skipped by the fetch reader, then "
                    "deleted) is C16's territory and is NOT covered by this harness",
                    "rpsl / bgpfu-lib replaced by models (opaque expressions)"],
    "harnesses": [
        harness("c03_compare_single_policy", package=AGENT, functions=["policies::compare::Policies<Evaluated>::compare"],
                bounds="1 policy x 3 evaluation states x installed/not", timeout={"quick": 1500, "thorough": 3600}, mem_gb=30),
        harness("c03_compare_case_split", package=AGENT, functions=["policies::compare::Policies<Evaluated>::compare"],
                bounds="2 policies x 3 evaluation states x installed/not", tiers=["experimental"], timeout={"experimental": 3600}, mem_gb=40),
    ],
}

C16_LOOPS = dict(READER_LOOPS)
C16_LOOPS.update({r"seek_end": 8, r"name_id_of": 7})

CHECKS["C16"] = {
    "crates": ["netconf", "junos-agent"],
    "explanation": "Maybe<Candidate>::read_xml (attribute scan with namespace resolution, comment decoration stripping, expression parse, then the body "
                   "scan of a plain statement) over one policy-statement carrying no attribute or one attribute from {jcmd:active=false|true, jcmd:comment "
                   "with 4 texts (decorated annotation, plain annotation, unrelated comment, unparsable expression), xmlns:jcmd, o:comment in a "
                   "foreign namespace} (9 cases walked by a concrete loop; the solver decides every branch that does not fold) and the body <name/> + <then><reject/></then>; 8 two-attribute cases in both orders; the 4 bodies (name + reject, name only, reject only, "
                   "name + accept) under a valid annotation; each result is compared with an independent selection "
                   "predicate: selected iff not inactive and annotated with a parseable expression; name and expression are the configuration's.",
    "assumptions": ["rpsl is modelled: an expression parses iff it is in the declared pool {AS-FOO, AS65000}",
                    "event-level tape; attribute values are logical (unescaped) values",
                    "attribute cases and bodies are enumerated (one and two attributes; 4 bodies with a valid annotation), not symbolic: the fully symbolic versions "
                    "(c16_attribute_scan) need > 25 min and are kept as experimental",
                    "NOT covered: Policies<Candidate>::read_xml (the enclosing configuration / policy-options loops, duplicate policy names)"],
    "harnesses": [
        harness("c16_attribute_scan_single", package=AGENT, functions=["policies::fetch::Maybe<Candidate>::read_xml (attribute scan)"],
                bounds="1 statement, plain body; 9 attribute cases walked by a concrete loop: none, active=false/true, jcmd:comment with 4 texts, xmlns:jcmd, foreign-namespace comment", loops=dict(C16_LOOPS, **{r"c16_attribute_scan_single": 10}), timeout={"quick": 800, "thorough": 3600}, mem_gb=30),
        harness("c16_body_scan", package=AGENT, functions=["policies::fetch::Maybe<Candidate>::read_xml (body scan)"],
                bounds="1 active annotated statement; 4 bodies walked by a concrete loop (name + reject, name only, reject only, name + accept)", loops=dict(C16_LOOPS, **{r"c16_body_scan": 6}), timeout={"quick": 800, "thorough": 3600}, mem_gb=30),
        harness("c16_attribute_pairs", package=AGENT, functions=["policies::fetch::Maybe<Candidate>::read_xml (attribute scan)"],
                bounds="1 statement, plain body; 8 two-attribute cases walked by a concrete loop (active/comment in both orders, duplicated xmlns:jcmd, foreign comment + unrelated comment, unparsable annotation)",
                loops=dict(C16_LOOPS, **{r"c16_attribute_pairs": 10}), timeout={"quick": 800, "thorough": 3600}, mem_gb=30),
        harness("c16_attribute_scan", package=AGENT, functions=["policies::fetch::Maybe<Candidate>::read_xml (attribute scan)"],
                bounds="1 statement, 2 attributes of any kind/value in any order, plain body", loops=C16_LOOPS, tiers=["experimental"], mem_gb=40),
    ],
}

# ------------------------------------------------------------------------------------------- C19

CHECKS["C19"] = {
    "crates": ["netconf", "junos-agent"],
    "level_text_prefix": "Bounded model checking of statements lifted verbatim from the real source on every build (a slice, not the whole async fn): ",
    "explanation": "The back-off recurrence of the daemon loop, decided by induction on the statements of Loop::start themselves: on every build "
                   "vbuild/slice_task.py lifts the initialisers (`let mut backoff = ..`, `time::interval(..)`), the Ok / Err arms of the match on the "
                   "job's outcome and the SIGHUP arm verbatim out of the current task.rs into plain functions (the async fn itself does not fit CBMC), "
                   "and Kani decides, for every period 1 s .. 2^62 s and every back-off value b with one minute <= b <= max(one minute, period): "
                   "(base) the first failure is retried after exactly one minute; (failure step) the retry delay is b - never below one minute, never "
                   "above max(one minute, period), never zero - and the next back-off is >= b, > b unless it reached the cap, and inside the "
                   "invariant again; (success step) the timer is re-armed with the normal period and the back-off is one minute again; (SIGHUP) the "
                   "timer fires immediately and the back-off is untouched; (SIGINT / SIGTERM) the arm leaves the loop and Loop::start ends with Ok(()); plus the composed history fail,fail,fail,ok,fail for every period.  "
                   "Frequency::from for every u64 (0 = one-shot).",
    "assumptions": ["the slice: statement text is taken verbatim from the current source (tracing statements dropped, `self.period` spelled `period`); "
                    "that the select! loop runs the Err / Ok arm exactly when a job ended with that outcome, and nothing else touches `backoff` or "
                    "`interval`, is read off the source shape by the slicer (it refuses any other shape -> INCONCLUSIVE) and is not decided by the solver",
                    "`interval` is a recorder for reset() / reset_after(d) / reset_immediately(); their meaning (now + period / now + d / now) is tokio 1.37's documented contract",
                    "NOT covered: the select! loop itself - which arm runs when (signals are only looked at while the loop waits, not while a job runs), what handle_task maps to Err "
                    "(the loop harnesses c19_backoff_and_period / c19_signals exceed 26 GB and stay experimental)",
                    "periods above 2^62 s are outside the claim (`backoff * 2` can overflow there after more than 56 consecutive failures)"],
    "harnesses": [
        harness("c19_slice_first_failure", package=AGENT, functions=["task::Loop::start (initialisers + Err arm, sliced)"], bounds="every period 1..2^62 s"),
        harness("c19_slice_failure_step", package=AGENT, functions=["task::Loop::start (Err arm, sliced)"],
                bounds="every period 1..2^62 s, every back-off in [60 s, max(60 s, period)] (whole seconds); one step = all histories by induction"),
        harness("c19_slice_success_step", package=AGENT, functions=["task::Loop::start (Ok arm, sliced)"], bounds="every period, every back-off in the invariant"),
        harness("c19_slice_sighup_step", package=AGENT, functions=["task::Loop::start (SIGHUP arm, sliced)"], bounds="every period, every back-off in the invariant"),
        harness("c19_slice_sigint_sigterm_exit", package=AGENT, functions=["task::Loop::start (SIGINT and SIGTERM arms, sliced)"], bounds="every period, every back-off in the invariant"),
        harness("c19_slice_history_fffsf", package=AGENT, functions=["task::Loop::start (initialisers, Err and Ok arms, sliced)"],
                bounds="history fail,fail,fail,ok,fail; every period 1..2^62 s", loops={r"c19_slice_history": 5}),
        harness("c19_frequency_zero_is_one_shot", package=AGENT, functions=["cli::Frequency::from"], bounds="all u64"),
        harness("c19_backoff_and_period", package=AGENT, functions=["task::Loop::start", "task::handle_task", "task::Updater::init_loop"], tiers=["experimental"],
                bounds="period 1..2^40 s, 3 runs, job duration <= 100 s", loops={r"Loop.*start": 5}, timeout={"experimental": 3600}, mem_gb=30),
        harness("c19_signals", package=AGENT, functions=["task::Loop::start (signal arms)"], bounds="one run, then one signal at any time before the timer", tiers=["experimental"],
                loops={r"Loop.*start": 4}, timeout={"experimental": 3600}, mem_gb=30),
    ],
}

# ------------------------------------------------------------------------------------------- claims

# Properties whose checks are registered in MANIFEST.json (the others stay in the registry for
# development but are listed under not_applicable until their quick tier is reliably green).
CLAIMED = ["C05", "C06", "C07", "C08", "C09", "C10", "C12", "C13", "C16", "C19", "C20"]

NOT_APPLICABLE = {
    "C01": "end-to-end convergence needs the agent's whole pipeline (fetch readers -> compare -> payload writer -> a reference Junos model) in one query. "
           "Measured: the payload writer (policies/load.rs) identifies ranges only through generic-ip's Display / format! output, which CBMC cannot execute "
           "symbolically; the compare step alone (40 lines over HashMap<Name(Arc<str>), _>) needs > 500 s of symbolic execution and runs out of 30 GB because "
           "key comparisons on heap strings do not constant-fold and every Arc reference-count update is a write through a pointer with several targets "
           "(c03_compare_* harnesses, kept as experimental); the installed-policy reader did not finish either (see C16)",
    "C02": "the property is about the text of every route-filter the writer emits (policies/load.rs): those texts come out of generic-ip's Display and "
           "format!, which are out of CBMC's reach; with fmt stubbed out the ranges lose their identity and nothing of the property is left to check",
    "C03": "only the compare step is bgpfu's own code; its harnesses (c03_compare_case_split, c03_compare_single_policy, kept as experimental) need > 500 s of "
           "symbolic execution and run out of 30 GB in the solver: map lookups compare Arc<str> keys living in heap blocks (no constant folding) and the "
           "Arc reference-count updates alone take 415 of 519 s (profiled).  The IRR side is third-party code (see C11)",
    "C04": "the ordering of RPCs within a run is a property of the future returned by Updater::run; creating that future alone costs ~100 s of symbolic "
           "execution and the daemon-loop harnesses that embed it (c19_*) exceed 26 GB within 15 minutes",
    "C11": "semantics reside in the third-party crates rpsl (pest parser + evaluator), generic-ip (prefix tries) and irrc (TCP client); bgpfu's own 240 lines only wire resolvers together. Kani cannot get through hash maps, tries of depth 128, a pest parser or sockets, and modelling all three would leave nothing of the property to check (DESIGN.md §6)",
    "C14": "arbitrary *event* tapes make every reader iteration branch over all event kinds, names and namespaces: the harnesses with 1 and 2 arbitrary cells "
           "(c14_reply_arbitrary_events_1/_2, kept as experimental) do not finish in 15 minutes; arbitrary *bytes* would additionally need quick-xml's tokenizer, "
           "which is a third-party state machine over a byte loop.  (The readers' catch-all arms are exercised by C08/C13's unexpected-element sequences.)",
    "C15": "per-policy isolation lives in eval.rs (one spawned task evaluating all policies through the third-party evaluator) and in the compare step; "
           "the former needs the rpsl/irrc models and the Updater::run future (see C04), the latter did not fit (see C03)",
    "C17": "the state in question (response/query alignment) belongs to irrc::Connection and rpsl's evaluator; bgpfu contributes a two-line take/restore. With irrc replaced by a model the property would be a statement about the model (DESIGN.md §6)",
    "C18": "dropping a Session::recv future at each of its suspension points needs the generator of that async fn with its Result<_, netconf::Error> slots; "
           "the one-step recv harness already exceeds 30 GB after 20 minutes (c05_recv_step_one_arrival, c18_* kept as experimental; root cause: 2 314 SSA "
           "symbols per Result<_, Error> move, DESIGN.md 9.2).  The slot state machine the property relies on (a pending slot stays pending when polled) is "
           "decided by c05_slot_take_step under C05",
}
for _i in range(1, 21):
    assert "C%02d" % _i in NOT_APPLICABLE or "C%02d" % _i in CLAIMED, "C%02d" % _i

//! C08 / C13 / C14 harnesses for the reply readers.  Child module of `message::rpc`.
use super::*;
use crate::verif_support::*;
use quick_xml::tape::{self, Tape};
use quick_xml::events::BytesStart;

fn reader_for<'a>(slot: u8) -> NsReader<&'a [u8]> {
    let mut r = NsReader::from_str(tape::input_for(slot));
    let _ = r.trim_text(true);
    r
}

/// Build `[item]* </rpc-reply>` (the content a reply reader sees after `from_xml` consumed
/// the start tag) from `N` symbolic items, `n` of which are used.
fn content_tape<const N: usize>(items: &[Item; N], n: usize) -> Tape {
    let mut t = Tape::EMPTY;
    let mut i = 0;
    while i < N {
        if i < n {
            push_item(&mut t, items[i]);
        }
        i += 1;
    }
    reply_close(&mut t);
    t
}

#[cfg(not(feature = "verif_deep"))]
const N_ITEMS: usize = 2;
#[cfg(feature = "verif_deep")]
const N_ITEMS: usize = 3;

use crate::message::rpc::error::verif_error as ve;

/// What the reply grammar says about a sequence of items.
struct Facts {
    has_error_sev_error: bool,
    n_rpc_errors: usize,
    sev: [u8; N_ITEMS],
    has_ok: bool,
    has_data: bool,
}

fn facts(items: &[Item; N_ITEMS], n: usize) -> Facts {
    let mut f = Facts { has_error_sev_error: false, n_rpc_errors: 0, sev: [0; N_ITEMS], has_ok: false, has_data: false };
    let mut i = 0;
    while i < N_ITEMS {
        if i < n {
            f.has_error_sev_error |= items[i].is_error_severity_error();
            if items[i].is_rpc_error() {
                f.sev[f.n_rpc_errors] = if items[i] == Item::ErrWarning { ve::SEV_WARNING } else { ve::SEV_ERROR };
                f.n_rpc_errors += 1;
            }
            f.has_ok |= items[i] == Item::Ok || items[i] == Item::OkPair;
            f.has_data |= items[i] == Item::Data;
        }
        i += 1;
    }
    f
}

fn stubbed_content_tape(items: &[Item; N_ITEMS], n: usize) -> Tape {
    let mut t = Tape::EMPTY;
    let mut i = 0;
    while i < N_ITEMS {
        if i < n {
            push_item_stubbed(&mut t, items[i]);
        }
        i += 1;
    }
    reply_close(&mut t);
    t
}

fn errs_match(errs: &Errors, f: &Facts) -> bool {
    if errs.len() != f.n_rpc_errors {
        return false;
    }
    let mut i = 0;
    let mut ok = true;
    while i < N_ITEMS {
        if i < f.n_rpc_errors {
            ok &= ve::nth_severity(errs, i) == Some(f.sev[i]);
        }
        i += 1;
    }
    ok
}

fn any_items() -> ([Item; N_ITEMS], usize) {
    let items: [Item; N_ITEMS] = [Item::Ok; N_ITEMS].map(|_| Item::any());
    let n: usize = kani::any();
    kani::assume(n <= N_ITEMS);
    (items, n)
}

/// C08, `EmptyReply` (close-session, edit-config, lock, commit, ...): every reply of up to 3
/// grammar items.
#[kani::proof]
#[kani::unwind(10)]
#[kani::stub(<crate::message::rpc::Error as crate::message::ReadXml>::read_xml, crate::message::rpc::error::verif_error::stub_read_xml)]
#[kani::stub(crate::message::rpc::Errors::new, crate::message::rpc::error::verif_error::stub_errors_new)]
#[kani::stub(crate::message::rpc::Errors::push, crate::message::rpc::error::verif_error::stub_errors_push)]
fn c08_empty_reply() {
    use_reply_tables();
    let (items, n) = any_items();
    tape::register(0, stubbed_content_tape(&items, n));
    let mut reader = reader_for(0);
    let start = BytesStart::from_id(n::RPC_REPLY);
    let res = EmptyReply::read_xml(&mut reader, &start);
    let f = facts(&items, n);
    match &res {
        Ok(EmptyReply::Ok) => {
            assert!(!f.has_error_sev_error, "C08 EmptyReply: a reply carrying rpc-error(error) was reported as success");
            assert!(f.has_ok, "C08 EmptyReply: success reported without <ok/>");
        }
        Ok(EmptyReply::Errs(errs)) => {
            assert!(errs_match(errs, &f), "C08 EmptyReply: reported errors are not exactly the reply's rpc-errors, in order");
        }
        Err(_) => {}
    }
    kani::cover!(matches!(res, Ok(EmptyReply::Ok)), "some reply is Ok");
    kani::cover!(matches!(res, Ok(EmptyReply::Errs(_))) && f.n_rpc_errors == 2, "some reply carries two errors");
    kani::cover!(matches!(res, Ok(EmptyReply::Errs(_))) && f.sev[0] == ve::SEV_WARNING, "a warning is reported as an error list");
    kani::cover!(res.is_err(), "some reply is a read error");
    std::mem::forget(res);
}

/// C08, `DataReply<Opaque>` (get, get-config).
#[kani::proof]
#[kani::unwind(10)]
#[kani::stub(<crate::message::rpc::Error as crate::message::ReadXml>::read_xml, crate::message::rpc::error::verif_error::stub_read_xml)]
#[kani::stub(crate::message::rpc::Errors::new, crate::message::rpc::error::verif_error::stub_errors_new)]
#[kani::stub(crate::message::rpc::Errors::push, crate::message::rpc::error::verif_error::stub_errors_push)]
fn c08_data_reply() {
    use crate::message::rpc::operation::Opaque;
    use_reply_tables();
    let (items, n) = any_items();
    tape::register(0, stubbed_content_tape(&items, n));
    let mut reader = reader_for(0);
    let start = BytesStart::from_id(n::RPC_REPLY);
    let res = DataReply::<Opaque>::read_xml(&mut reader, &start);
    let f = facts(&items, n);
    match &res {
        Ok(DataReply::Data(_)) => {
            assert!(!f.has_error_sev_error, "C08 DataReply: a reply carrying rpc-error(error) was reported as success");
            assert!(f.has_data, "C08 DataReply: success reported without <data>");
        }
        Ok(DataReply::Errs(errs)) => {
            assert!(errs_match(errs, &f), "C08 DataReply: reported errors are not exactly the reply's rpc-errors, in order");
        }
        Err(_) => {}
    }
    kani::cover!(matches!(res, Ok(DataReply::Data(_))), "some reply is Data");
    kani::cover!(matches!(res, Ok(DataReply::Errs(_))), "some reply is Errs");
    std::mem::forget(res);
}

/// C08, `BareReply` (open-/close-/lock-/unlock-configuration): success = empty reply.
#[cfg(feature = "junos")]
#[kani::proof]
#[kani::unwind(10)]
#[kani::stub(<crate::message::rpc::Error as crate::message::ReadXml>::read_xml, crate::message::rpc::error::verif_error::stub_read_xml)]
#[kani::stub(crate::message::rpc::Errors::new, crate::message::rpc::error::verif_error::stub_errors_new)]
#[kani::stub(crate::message::rpc::Errors::push, crate::message::rpc::error::verif_error::stub_errors_push)]
fn c08_bare_reply() {
    use crate::message::rpc::operation::junos::BareReply;
    use_reply_tables();
    let (items, n) = any_items();
    tape::register(0, stubbed_content_tape(&items, n));
    let mut reader = reader_for(0);
    let start = BytesStart::from_id(n::RPC_REPLY);
    let res = BareReply::read_xml(&mut reader, &start);
    let f = facts(&items, n);
    match &res {
        Ok(BareReply::Ok) => {
            assert!(f.n_rpc_errors == 0, "C08 BareReply: a reply carrying an rpc-error was reported as success");
        }
        Ok(BareReply::Errs(errs)) => {
            assert!(errs_match(errs, &f), "C08 BareReply: reported errors are not exactly the reply's rpc-errors, in order");
        }
        Err(_) => {}
    }
    kani::cover!(matches!(res, Ok(BareReply::Ok)), "some reply is Ok");
    kani::cover!(matches!(res, Ok(BareReply::Errs(_))), "some reply is Errs");
    std::mem::forget(res);
}

#[kani::proof]
fn cal_nothing() {
    let x: u8 = kani::any();
    assert!(x as u32 + 1 > 0);
}


// ---- constructors for sibling harness modules (private fields of this module) ----------------

pub(crate) fn message_id(n: usize) -> MessageId {
    MessageId(n)
}

pub(crate) fn message_id_value(m: MessageId) -> usize {
    m.0
}

/// A parked reply as `PartialReply::recv` would have produced it for the tape in `slot`.
pub(crate) fn partial_reply(id: usize, slot: u8) -> PartialReply {
    PartialReply { message_id: MessageId(id), buf: tape::input_for(slot).into() }
}

pub(crate) fn partial_reply_id(p: &PartialReply) -> usize {
    p.message_id.0
}

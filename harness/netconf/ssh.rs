//! C06 / C07 for the SSH transport: the pump task spawned by `Ssh::connect` plus
//! `ssh::Receiver::recv`.  Child module of `transport::ssh`.
use super::*;
use russh::model::{self as rm, Step, CHUNK_CAP, EMPTY_STEP, MAX_STEPS};
use tokio::model;

include!("framing_common.rs");

fn connect() -> Ssh {
    let fut = Ssh::connect("host:830", "user".to_string(), Password("pw".to_string()));
    match model::run_bounded(fut, 2) {
        Some(Ok(ssh)) => ssh,
        _ => {
            kani::assume(false);
            unreachable!()
        }
    }
}

fn script_from(plan: &Plan, tail: &[Step]) -> usize {
    let mut steps = [EMPTY_STEP; MAX_STEPS];
    let mut k = 0;
    let mut prev = 0;
    while k < 4 {
        if k < plan.n {
            let mut bytes = [0u8; CHUNK_CAP];
            let len = plan.cut[k] - prev;
            let mut j = 0;
            while j < CHUNK_CAP {
                if j < len {
                    bytes[j] = plan.stream[prev + j];
                }
                j += 1;
            }
            steps[k] = Step::Data { len: len as u8, bytes };
            prev = plan.cut[k];
        }
        k += 1;
    }
    let mut n = plan.n;
    for t in tail {
        steps[n] = *t;
        n += 1;
    }
    rm::set_script(steps, n);
    n
}

fn bytes_eq(b: &Bytes, plan: &Plan, from: usize, to: usize) -> bool {
    if b.len() != to - from {
        return false;
    }
    let mut i = 0;
    while i < MAX_STREAM {
        if i < b.len() && b[i] != plan.stream[from + i] {
            return false;
        }
        i += 1;
    }
    true
}

/// Stub for the private grow path of `BytesMut`; see tls.rs.
pub fn no_grow(_b: &mut BytesMut, _additional: usize) {
    assert!(false, "model bound exceeded: BytesMut would have to grow");
}

/// C06: whatever the packetisation, both messages are delivered, complete and in order, once
/// all packets have been processed by the pump — without any further traffic.
#[kani::proof]
#[kani::unwind(18)]
#[kani::stub(bytes::BytesMut::reserve_inner, no_grow)]
fn c06_ssh_segmentation() {
    let plan = any_plan(true);
    let _ = script_from(&plan, &[]);
    let ssh = connect();
    let (_tx, mut rx) = ssh.split();
    // run the pump until it has consumed the script and is waiting for more
    let done = model::poll_task(0);
    assert!(!done, "C06 ssh: pump task ended on a well-formed stream");
    assert!(rm::pos() == plan.n, "C06 ssh: pump did not consume every packet in one activation");
    let e1 = first_marker_end(&plan, 0).unwrap();
    kani::assume(e1 == plan.m1);
    let r1 = model::run_bounded(rx.recv(), 1);
    match &r1 {
        Some(Ok(msg)) => assert!(bytes_eq(msg, &plan, 0, plan.m1), "C06 ssh: first message differs"),
        Some(Err(_)) => assert!(false, "C06 ssh: error on a well-formed stream"),
        None => assert!(false, "C06 ssh: first message not delivered although its delimiter has arrived"),
    }
    let r2 = model::run_bounded(rx.recv(), 1);
    match &r2 {
        Some(Ok(msg)) => assert!(bytes_eq(msg, &plan, plan.m1, plan.m2), "C06 ssh: second message differs"),
        Some(Err(_)) => assert!(false, "C06 ssh: error on a well-formed stream (2nd)"),
        None => assert!(false, "C06 ssh: second message not delivered although its delimiter has arrived"),
    }
    kani::cover!(plan.n == 1, "both messages in one packet");
    kani::cover!(plan.n == 4 && plan.cut[0] < plan.m1 && plan.cut[0] + 6 > plan.m1, "a cut inside the first delimiter");
    std::mem::forget(r1);
    std::mem::forget(r2);
    std::mem::forget(rx);
    std::mem::forget(_tx);
    model::forget_tasks();
}

/// C07: after the peer closed the channel (EOF, or Close followed by the channel going away,
/// or the session task going away without notice) recv() completes with an error and the pump
/// neither hangs nor spins.
#[kani::proof]
#[kani::unwind(18)]
#[kani::stub(bytes::BytesMut::reserve_inner, no_grow)]
fn c07_ssh_disconnect() {
    let plan = any_plan(false);
    let keep: usize = kani::any();
    kani::assume(keep < plan.m1);
    let how: u8 = kani::any();
    kani::assume(how < 3);
    let mut steps = [EMPTY_STEP; MAX_STEPS];
    let mut n = 0;
    if keep > 0 {
        let mut bytes = [0u8; CHUNK_CAP];
        let mut j = 0;
        while j < CHUNK_CAP {
            if j < keep {
                bytes[j] = plan.stream[j];
            }
            j += 1;
        }
        steps[0] = Step::Data { len: keep as u8, bytes };
        n = 1;
    }
    match how {
        0 => {
            steps[n] = Step::Eof;
            steps[n + 1] = Step::Closed;
            n += 2;
        }
        1 => {
            steps[n] = Step::Close;
            steps[n + 1] = Step::Closed;
            n += 2;
        }
        _ => {
            steps[n] = Step::Closed;
            n += 1;
        }
    }
    rm::set_script(steps, n);
    let ssh = connect();
    let (_tx, mut rx) = ssh.split();
    let _done = model::poll_task(0);
    assert!(!rm::overrun(), "C07 ssh: the pump keeps calling wait() after the channel is gone (busy loop)");
    let r = model::run_bounded(rx.recv(), 1);
    match &r {
        Some(Err(_)) => {}
        Some(Ok(_)) => assert!(false, "C07 ssh: a message was fabricated from a truncated stream"),
        None => assert!(false, "C07 ssh: recv() still pending after the peer closed"),
    }
    kani::cover!(how == 0 && keep > 0, "EOF in mid-message");
    kani::cover!(how == 1, "Close then channel gone");
    kani::cover!(how == 2 && keep == 0, "channel gone before any byte");
    std::mem::forget(r);
    std::mem::forget(rx);
    std::mem::forget(_tx);
    model::forget_tasks();
}

// =================================================================================================
// C20 (narrow): the password type never formats its content.

struct Sink {
    len: usize,
    buf: [u8; 40],
}

impl std::fmt::Write for Sink {
    fn write_str(&mut self, s: &str) -> std::fmt::Result {
        let b = s.as_bytes();
        let mut i = 0;
        while i < b.len() {
            if self.len < 40 {
                self.buf[self.len] = b[i];
                self.len += 1;
            }
            i += 1;
        }
        Ok(())
    }
}

/// C20: `Debug` output of `Password` is `Password("****")` whatever the secret is (here: every
/// 2-byte secret, including quotes and non-ASCII lead bytes), so that `#[instrument]`ed
/// functions and `?password` fields log nothing of it.
#[kani::proof]
#[kani::unwind(24)]
fn c20_password_debug_is_redacted() {
    use std::fmt::Write as _;
    let b0: u8 = kani::any();
    let b1: u8 = kani::any();
    kani::assume(b0 < 0x80 && b1 < 0x80);
    let mut s = String::with_capacity(2);
    s.push(b0 as char);
    s.push(b1 as char);
    let p = Password(s);
    let mut sink = Sink { len: 0, buf: [0; 40] };
    let r = write!(sink, "{:?}", p);
    assert!(r.is_ok());
    let want = b"Password(\"****\")";
    assert!(sink.len == want.len(), "C20: Debug output of Password has an unexpected length (content leaked?)");
    let mut i = 0;
    while i < 16 {
        assert!(sink.buf[i] == want[i], "C20: Debug output of Password is not the redacted form");
        i += 1;
    }
    kani::cover!(b0 == b'"', "secret containing a quote");
    kani::cover!(b0 == b'*' && b1 == b'*', "secret made of asterisks");
    kani::cover!(b0 == b'\\' && b1 == b'n', "secret containing a backslash escape");
    std::mem::forget(p);
}

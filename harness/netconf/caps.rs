//! Child module of `capabilities`: harness-side constructors that need the private field.
use super::*;

/// A capability set with slot `i` holding `slots[i]` (values concrete, presence symbolic).
pub(crate) fn capabilities_from_slots(slots: [Option<Capability>; ::vcollections::CAP]) -> Capabilities {
    Capabilities { inner: HashSet::from_slots(slots) }
}

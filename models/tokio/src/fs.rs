//! `tokio::fs` model: opening a file fails or yields a file whose content is the scripted
//! stream.
use std::io;
use std::path::Path;
use std::task::Poll;

use crate::io::{scripted_read, AsyncRead};

static mut OPEN_FAILS: bool = true;

pub fn set_open_fails(on: bool) {
    unsafe { OPEN_FAILS = on }
}

#[derive(Debug)]
pub struct File(());

impl File {
    pub async fn open(_path: impl AsRef<Path>) -> io::Result<File> {
        if unsafe { OPEN_FAILS } {
            Err(io::Error::from(io::ErrorKind::NotFound))
        } else {
            Ok(File(()))
        }
    }
}

impl AsyncRead for File {
    fn poll_read_model(&mut self, out: &mut dyn FnMut(&[u8])) -> Poll<io::Result<usize>> {
        scripted_read(out)
    }
}

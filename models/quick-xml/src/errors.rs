use std::fmt;

use crate::events::attributes::AttrError;

/// Model of `quick_xml::Error`.  Field-less and `Copy`: a `Result<_, Error>` with a symbolic
/// discriminant has no drop glue (drop glue of heap-carrying error enums dominates symbolic
/// execution otherwise).  Payloads of the real variants (messages, the io::Error) are dropped.
#[derive(Clone, Copy, Debug, PartialEq, Eq)]
pub enum Error {
    Io,
    NonDecodable,
    UnexpectedEof,
    EndEventMismatch,
    UnexpectedToken,
    InvalidAttr(AttrError),
    /// Model only: "the tokenizer failed here" (malformed markup, mismatched end tag, bad
    /// escape, ...) — an `Err` cell of the tape.
    Injected,
}

pub type Result<T> = std::result::Result<T, Error>;

impl From<std::io::Error> for Error {
    fn from(e: std::io::Error) -> Self {
        // leaked, not dropped: io::Error's drop glue is a known CBMC blow-up
        std::mem::forget(e);
        Error::Io
    }
}

impl From<std::str::Utf8Error> for Error {
    fn from(_: std::str::Utf8Error) -> Self {
        Error::NonDecodable
    }
}

impl From<std::string::FromUtf8Error> for Error {
    fn from(e: std::string::FromUtf8Error) -> Self {
        std::mem::forget(e);
        Error::NonDecodable
    }
}

impl From<AttrError> for Error {
    fn from(e: AttrError) -> Self {
        Error::InvalidAttr(e)
    }
}

impl fmt::Display for Error {
    fn fmt(&self, f: &mut fmt::Formatter<'_>) -> fmt::Result {
        f.write_str("xml error (model)")
    }
}

impl std::error::Error for Error {}

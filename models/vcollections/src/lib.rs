//! Verification model of `std::collections::{HashMap, HashSet}` (fixed-capacity slot arrays,
//! linear search by `Eq`), re-exporting the real ordered collections.  Kani cannot get through
//! hashbrown (DESIGN.md §2.5).  The verification build rewrites the path prefix
//! `std::collections` to `::vcollections`; nothing else in the bgpfu-rs sources changes.
//!
//! Iteration order: insertion order.  When [`set_nondet_order`]`(true)` is in force (Kani only)
//! every `iter()`/`keys()`/`values()`/`into_iter()` starts at a nondeterministic rotation and
//! direction, which for <= 3 elements yields every permutation — std's order is unspecified, so
//! code whose observable result depends on it must be correct for all of them.
pub use std::collections::{btree_map, btree_set, vec_deque, BTreeMap, BTreeSet, BinaryHeap, LinkedList, VecDeque};

use std::borrow::Borrow;
use std::fmt;
use std::hash::Hash;

/// Capacity of every map / set.  Storage is a fixed array of slots, not a `Vec`: pushing onto a
/// `Vec` of symbolic length makes CBMC explore the reallocation path (a memcpy of symbolic
/// size) at every insertion.  Exceeding the capacity is a panic (i.e. a reported failure).
#[cfg(not(feature = "cap4"))]
pub const CAP: usize = 14;
/// agent build: 4 slots are enough for the 2-policy / 3-range harnesses and every slot costs a
/// loop iteration in every lookup
#[cfg(feature = "cap4")]
pub const CAP: usize = 4;

/// Sparse slot storage: a slot is `Some(value)` or free; removing leaves a hole.  Keeping
/// values where they were put (instead of compacting) means that a set built by a harness with
/// [`HashSet::from_slots`] has a *concrete* value in every slot and only the presence bits are
/// symbolic, so comparisons against constants fold away under the solver.
pub(crate) struct Slots<T> {
    slot: [Option<T>; CAP],
}

impl<T> Slots<T> {
    const fn new() -> Self {
        Self { slot: [const { None }; CAP] }
    }
    fn len(&self) -> usize {
        let mut n = 0;
        let mut i = 0;
        while i < CAP {
            if self.slot[i].is_some() {
                n += 1;
            }
            i += 1;
        }
        n
    }
    fn is_empty(&self) -> bool {
        self.len() == 0
    }
    /// put `v` into the first free slot; returns its index
    fn push(&mut self, v: T) -> usize {
        let mut i = 0;
        while i < CAP {
            if self.slot[i].is_none() {
                self.slot[i] = Some(v);
                return i;
            }
            i += 1;
        }
        panic!("vcollections: capacity exceeded (model bound)");
    }
    #[inline]
    fn at(&self, i: usize) -> Option<&T> {
        self.slot[i].as_ref()
    }
    #[inline]
    fn get(&self, i: usize) -> &T {
        match &self.slot[i] {
            Some(v) => v,
            None => unreachable!(),
        }
    }
    #[inline]
    fn get_mut(&mut self, i: usize) -> &mut T {
        match &mut self.slot[i] {
            Some(v) => v,
            None => unreachable!(),
        }
    }
    fn remove(&mut self, i: usize) -> T {
        self.slot[i].take().expect("vcollections: remove of empty slot")
    }
    fn clear(&mut self) {
        let mut k = 0;
        while k < CAP {
            self.slot[k] = None;
            k += 1;
        }
    }
    fn take_at(&mut self, i: usize) -> Option<T> {
        self.slot[i].take()
    }
    fn retain_mut<F: FnMut(&mut T) -> bool>(&mut self, mut f: F) {
        let mut i = 0;
        while i < CAP {
            let keep = match &mut self.slot[i] {
                Some(v) => f(v),
                None => true,
            };
            if !keep {
                self.slot[i] = None;
            }
            i += 1;
        }
    }
}

impl<T: Clone> Clone for Slots<T> {
    fn clone(&self) -> Self {
        let mut out = Self::new();
        let mut i = 0;
        while i < CAP {
            out.slot[i] = self.slot[i].clone();
            i += 1;
        }
        out
    }
}

static mut NONDET_ORDER: bool = false;

/// Turn nondeterministic iteration order on or off (verification harnesses only).
pub fn set_nondet_order(on: bool) {
    unsafe { NONDET_ORDER = on }
}

#[cfg(kani)]
fn order_choice(len: usize) -> (usize, bool) {
    if unsafe { NONDET_ORDER } && len > 1 {
        let start: usize = kani::any();
        kani::assume(start < len);
        (start, kani::any())
    } else {
        (0, false)
    }
}

#[cfg(not(kani))]
fn order_choice(_len: usize) -> (usize, bool) {
    (0, false)
}

/// Position iterator implementing the (possibly nondeterministic) order.
#[derive(Clone, Debug)]
pub struct Order {
    len: usize,
    start: usize,
    rev: bool,
    done: usize,
}

impl Order {
    /// order over all `CAP` slot indices (iterators skip the free ones)
    fn new(_len: usize) -> Self {
        let (start, rev) = order_choice(CAP);
        Self { len: CAP, start, rev, done: 0 }
    }
    fn next(&mut self) -> Option<usize> {
        if self.done >= self.len {
            return None;
        }
        let k = self.done;
        self.done += 1;
        let off = if self.rev { self.len - 1 - k } else { k };
        let mut i = self.start + off;
        if i >= self.len {
            i -= self.len;
        }
        Some(i)
    }
}

// ---------------------------------------------------------------------------------------------
// HashMap

#[derive(Clone)]
pub struct HashMap<K, V> {
    items: Slots<(K, V)>,
}

impl<K, V> Default for HashMap<K, V> {
    fn default() -> Self {
        Self::new()
    }
}

impl<K, V> HashMap<K, V> {
    pub const fn new() -> Self {
        Self { items: Slots::new() }
    }
    pub fn with_capacity(_: usize) -> Self {
        Self::new()
    }
    pub fn len(&self) -> usize {
        self.items.len()
    }
    pub fn is_empty(&self) -> bool {
        self.items.is_empty()
    }
    pub fn clear(&mut self) {
        self.items.clear();
    }
    pub fn iter(&self) -> hash_map::Iter<'_, K, V> {
        hash_map::Iter { items: &self.items, order: Order::new(self.items.len()) }
    }
    pub fn keys(&self) -> hash_map::Keys<'_, K, V> {
        hash_map::Keys { inner: self.iter() }
    }
    pub fn values(&self) -> hash_map::Values<'_, K, V> {
        hash_map::Values { inner: self.iter() }
    }
    pub fn into_keys(self) -> impl Iterator<Item = K> {
        self.into_iter().map(|(k, _)| k)
    }
    pub fn into_values(self) -> impl Iterator<Item = V> {
        self.into_iter().map(|(_, v)| v)
    }
}

impl<K, V> HashMap<K, V> {
    /// Model hook: build a map directly from (pairwise distinct keys) optional entries.
    pub fn from_slots(slots: [Option<(K, V)>; CAP]) -> Self {
        Self { items: Slots { slot: slots } }
    }
}

impl<K: Eq + Hash, V> HashMap<K, V> {
    fn position<Q>(&self, k: &Q) -> Option<usize>
    where
        K: Borrow<Q>,
        Q: Eq + ?Sized,
    {
        let mut i = 0;
        while i < CAP {
            if matches!(self.items.at(i), Some(e) if e.0.borrow() == k) {
                return Some(i);
            }
            i += 1;
        }
        None
    }
    pub fn get<Q>(&self, k: &Q) -> Option<&V>
    where
        K: Borrow<Q>,
        Q: Hash + Eq + ?Sized,
    {
        match self.position(k) {
            Some(i) => Some(&self.items.get(i).1),
            None => None,
        }
    }
    pub fn get_mut<Q>(&mut self, k: &Q) -> Option<&mut V>
    where
        K: Borrow<Q>,
        Q: Hash + Eq + ?Sized,
    {
        match self.position(k) {
            Some(i) => Some(&mut self.items.get_mut(i).1),
            None => None,
        }
    }
    pub fn get_key_value<Q>(&self, k: &Q) -> Option<(&K, &V)>
    where
        K: Borrow<Q>,
        Q: Hash + Eq + ?Sized,
    {
        match self.position(k) {
            Some(i) => {
                let e = self.items.get(i);
                Some((&e.0, &e.1))
            }
            None => None,
        }
    }
    pub fn contains_key<Q>(&self, k: &Q) -> bool
    where
        K: Borrow<Q>,
        Q: Hash + Eq + ?Sized,
    {
        self.position(k).is_some()
    }
    pub fn insert(&mut self, k: K, v: V) -> Option<V> {
        match self.position(&k) {
            Some(i) => Some(std::mem::replace(&mut self.items.get_mut(i).1, v)),
            None => {
                let _ = self.items.push((k, v));
                None
            }
        }
    }
    pub fn remove<Q>(&mut self, k: &Q) -> Option<V>
    where
        K: Borrow<Q>,
        Q: Hash + Eq + ?Sized,
    {
        match self.position(k) {
            Some(i) => Some(self.items.remove(i).1),
            None => None,
        }
    }
    pub fn remove_entry<Q>(&mut self, k: &Q) -> Option<(K, V)>
    where
        K: Borrow<Q>,
        Q: Hash + Eq + ?Sized,
    {
        match self.position(k) {
            Some(i) => Some(self.items.remove(i)),
            None => None,
        }
    }
    pub fn entry(&mut self, key: K) -> hash_map::Entry<'_, K, V> {
        match self.position(&key) {
            Some(index) => hash_map::Entry::Occupied(hash_map::OccupiedEntry { map: self, index, key }),
            None => hash_map::Entry::Vacant(hash_map::VacantEntry { map: self, key }),
        }
    }
    pub fn retain<F: FnMut(&K, &mut V) -> bool>(&mut self, mut f: F) {
        self.items.retain_mut(|e| f(&e.0, &mut e.1));
    }
}

impl<K: Eq + Hash, V> Extend<(K, V)> for HashMap<K, V> {
    fn extend<I: IntoIterator<Item = (K, V)>>(&mut self, iter: I) {
        for (k, v) in iter {
            let _ = self.insert(k, v);
        }
    }
}

impl<K: Eq + Hash, V> FromIterator<(K, V)> for HashMap<K, V> {
    fn from_iter<I: IntoIterator<Item = (K, V)>>(iter: I) -> Self {
        let mut m = Self::new();
        for (k, v) in iter {
            let _ = m.insert(k, v);
        }
        m
    }
}

impl<K: Eq + Hash, V, const N: usize> From<[(K, V); N]> for HashMap<K, V> {
    fn from(arr: [(K, V); N]) -> Self {
        arr.into_iter().collect()
    }
}

impl<K: Eq + Hash, V: PartialEq> PartialEq for HashMap<K, V> {
    fn eq(&self, other: &Self) -> bool {
        if self.len() != other.len() {
            return false;
        }
        let mut i = 0;
        while i < CAP {
            if let Some(e) = self.items.at(i) {
                match other.get(&e.0) {
                    Some(v) if *v == e.1 => {}
                    _ => return false,
                }
            }
            i += 1;
        }
        true
    }
}
impl<K: Eq + Hash, V: Eq> Eq for HashMap<K, V> {}

impl<K: fmt::Debug, V: fmt::Debug> fmt::Debug for HashMap<K, V> {
    fn fmt(&self, f: &mut fmt::Formatter<'_>) -> fmt::Result {
        let mut m = f.debug_map();
        for i in 0..CAP {
            if let Some(e) = self.items.at(i) {
                let _ = m.entry(&e.0, &e.1);
            }
        }
        m.finish()
    }
}

impl<K, V> IntoIterator for HashMap<K, V> {
    type Item = (K, V);
    type IntoIter = hash_map::IntoIter<K, V>;
    fn into_iter(self) -> Self::IntoIter {
        let order = Order::new(self.items.len());
        hash_map::IntoIter { items: self.items, order }
    }
}

impl<'a, K, V> IntoIterator for &'a HashMap<K, V> {
    type Item = (&'a K, &'a V);
    type IntoIter = hash_map::Iter<'a, K, V>;
    fn into_iter(self) -> Self::IntoIter {
        self.iter()
    }
}

impl<K: Eq + Hash + Borrow<Q>, Q: Eq + Hash + ?Sized, V> std::ops::Index<&Q> for HashMap<K, V> {
    type Output = V;
    fn index(&self, k: &Q) -> &V {
        self.get(k).expect("no entry found for key")
    }
}

pub mod hash_map {
    use super::{HashMap, Order, Slots};

    pub enum Entry<'a, K, V> {
        Occupied(OccupiedEntry<'a, K, V>),
        Vacant(VacantEntry<'a, K, V>),
    }

    pub struct OccupiedEntry<'a, K, V> {
        pub(super) map: &'a mut HashMap<K, V>,
        pub(super) index: usize,
        #[allow(dead_code)]
        pub(super) key: K,
    }

    pub struct VacantEntry<'a, K, V> {
        pub(super) map: &'a mut HashMap<K, V>,
        pub(super) key: K,
    }

    impl<'a, K, V> OccupiedEntry<'a, K, V> {
        pub fn key(&self) -> &K {
            &self.map.items.get(self.index).0
        }
        pub fn get(&self) -> &V {
            &self.map.items.get(self.index).1
        }
        pub fn get_mut(&mut self) -> &mut V {
            &mut self.map.items.get_mut(self.index).1
        }
        pub fn into_mut(self) -> &'a mut V {
            &mut self.map.items.get_mut(self.index).1
        }
        pub fn insert(&mut self, v: V) -> V {
            std::mem::replace(&mut self.map.items.get_mut(self.index).1, v)
        }
        pub fn remove(self) -> V {
            self.map.items.remove(self.index).1
        }
        pub fn remove_entry(self) -> (K, V) {
            self.map.items.remove(self.index)
        }
    }

    impl<'a, K, V> VacantEntry<'a, K, V> {
        pub fn key(&self) -> &K {
            &self.key
        }
        pub fn into_key(self) -> K {
            self.key
        }
        pub fn insert(self, v: V) -> &'a mut V {
            let n = self.map.items.push((self.key, v));
            &mut self.map.items.get_mut(n).1
        }
    }

    impl<'a, K, V> Entry<'a, K, V> {
        pub fn or_insert(self, default: V) -> &'a mut V {
            match self {
                Entry::Occupied(e) => e.into_mut(),
                Entry::Vacant(e) => e.insert(default),
            }
        }
        pub fn or_insert_with<F: FnOnce() -> V>(self, f: F) -> &'a mut V {
            match self {
                Entry::Occupied(e) => e.into_mut(),
                Entry::Vacant(e) => e.insert(f()),
            }
        }
        pub fn or_default(self) -> &'a mut V
        where
            V: Default,
        {
            self.or_insert_with(V::default)
        }
        pub fn key(&self) -> &K {
            match self {
                Entry::Occupied(e) => e.key(),
                Entry::Vacant(e) => e.key(),
            }
        }
    }

    #[derive(Clone)]
    pub struct Iter<'a, K, V> {
        pub(super) items: &'a Slots<(K, V)>,
        pub(super) order: Order,
    }
    impl<'a, K, V> Iterator for Iter<'a, K, V> {
        type Item = (&'a K, &'a V);
        fn next(&mut self) -> Option<Self::Item> {
            loop {
                match self.order.next() {
                    Some(i) => {
                        if let Some(e) = self.items.at(i) {
                            return Some((&e.0, &e.1));
                        }
                    }
                    None => return None,
                }
            }
        }
    }

    #[derive(Clone)]
    pub struct Keys<'a, K, V> {
        pub(super) inner: Iter<'a, K, V>,
    }
    impl<'a, K, V> Iterator for Keys<'a, K, V> {
        type Item = &'a K;
        fn next(&mut self) -> Option<&'a K> {
            match self.inner.next() {
                Some((k, _)) => Some(k),
                None => None,
            }
        }
    }

    #[derive(Clone)]
    pub struct Values<'a, K, V> {
        pub(super) inner: Iter<'a, K, V>,
    }
    impl<'a, K, V> Iterator for Values<'a, K, V> {
        type Item = &'a V;
        fn next(&mut self) -> Option<&'a V> {
            match self.inner.next() {
                Some((_, v)) => Some(v),
                None => None,
            }
        }
    }

    pub struct IntoIter<K, V> {
        pub(super) items: Slots<(K, V)>,
        pub(super) order: Order,
    }
    impl<K, V> Iterator for IntoIter<K, V> {
        type Item = (K, V);
        fn next(&mut self) -> Option<(K, V)> {
            loop {
                match self.order.next() {
                    Some(i) => {
                        if let Some(e) = self.items.take_at(i) {
                            return Some(e);
                        }
                    }
                    None => return None,
                }
            }
        }
    }
}

// ---------------------------------------------------------------------------------------------
// HashSet

#[derive(Clone)]
pub struct HashSet<T> {
    items: Slots<T>,
}

impl<T> Default for HashSet<T> {
    fn default() -> Self {
        Self::new()
    }
}

impl<T> HashSet<T> {
    pub const fn new() -> Self {
        Self { items: Slots::new() }
    }
    pub fn with_capacity(_: usize) -> Self {
        Self::new()
    }
    pub fn len(&self) -> usize {
        self.items.len()
    }
    pub fn is_empty(&self) -> bool {
        self.items.is_empty()
    }
    pub fn clear(&mut self) {
        self.items.clear();
    }
    pub fn iter(&self) -> hash_set::Iter<'_, T> {
        hash_set::Iter { items: &self.items, order: Order::new(self.items.len()) }
    }
}

impl<T> HashSet<T> {
    /// Model hook: build a set directly from (pairwise distinct) optional values, slot `i`
    /// holding `slots[i]`.  One move: no duplicate check, no compaction, nothing dropped.
    pub fn from_slots(slots: [Option<T>; CAP]) -> Self {
        Self { items: Slots { slot: slots } }
    }
}

impl<T: Eq + Hash> HashSet<T> {
    fn position<Q>(&self, v: &Q) -> Option<usize>
    where
        T: Borrow<Q>,
        Q: Eq + ?Sized,
    {
        let mut i = 0;
        while i < CAP {
            if matches!(self.items.at(i), Some(e) if e.borrow() == v) {
                return Some(i);
            }
            i += 1;
        }
        None
    }
    pub fn contains<Q>(&self, v: &Q) -> bool
    where
        T: Borrow<Q>,
        Q: Hash + Eq + ?Sized,
    {
        self.position(v).is_some()
    }
    pub fn get<Q>(&self, v: &Q) -> Option<&T>
    where
        T: Borrow<Q>,
        Q: Hash + Eq + ?Sized,
    {
        match self.position(v) {
            Some(i) => Some(self.items.get(i)),
            None => None,
        }
    }
    pub fn insert(&mut self, v: T) -> bool {
        if self.position(&v).is_some() {
            false
        } else {
            let _ = self.items.push(v);
            true
        }
    }
    pub fn replace(&mut self, v: T) -> Option<T> {
        match self.position(&v) {
            Some(i) => Some(std::mem::replace(self.items.get_mut(i), v)),
            None => {
                let _ = self.items.push(v);
                None
            }
        }
    }
    pub fn remove<Q>(&mut self, v: &Q) -> bool
    where
        T: Borrow<Q>,
        Q: Hash + Eq + ?Sized,
    {
        match self.position(v) {
            Some(i) => {
                let _ = self.items.remove(i);
                true
            }
            None => false,
        }
    }
    pub fn take<Q>(&mut self, v: &Q) -> Option<T>
    where
        T: Borrow<Q>,
        Q: Hash + Eq + ?Sized,
    {
        match self.position(v) {
            Some(i) => Some(self.items.remove(i)),
            None => None,
        }
    }
    pub fn retain<F: FnMut(&T) -> bool>(&mut self, mut f: F) {
        self.items.retain_mut(|e| f(e));
    }
    pub fn difference<'a>(&'a self, other: &'a HashSet<T>) -> hash_set::Difference<'a, T> {
        hash_set::Difference { iter: self.iter(), other }
    }
    pub fn intersection<'a>(&'a self, other: &'a HashSet<T>) -> hash_set::Intersection<'a, T> {
        hash_set::Intersection { iter: self.iter(), other }
    }
    pub fn union<'a>(&'a self, other: &'a HashSet<T>) -> hash_set::Union<'a, T> {
        hash_set::Union { first: self.iter(), second: other.difference(self) }
    }
    pub fn symmetric_difference<'a>(&'a self, other: &'a HashSet<T>) -> impl Iterator<Item = &'a T> {
        self.difference(other).chain(other.difference(self))
    }
    pub fn is_subset(&self, other: &HashSet<T>) -> bool {
        let mut i = 0;
        while i < CAP {
            if matches!(self.items.at(i), Some(e) if !other.contains(e)) {
                return false;
            }
            i += 1;
        }
        true
    }
    pub fn is_superset(&self, other: &HashSet<T>) -> bool {
        other.is_subset(self)
    }
    pub fn is_disjoint(&self, other: &HashSet<T>) -> bool {
        let mut i = 0;
        while i < CAP {
            if matches!(self.items.at(i), Some(e) if other.contains(e)) {
                return false;
            }
            i += 1;
        }
        true
    }
}

impl<T: Eq + Hash> Extend<T> for HashSet<T> {
    fn extend<I: IntoIterator<Item = T>>(&mut self, iter: I) {
        for v in iter {
            let _ = self.insert(v);
        }
    }
}

impl<T: Eq + Hash> FromIterator<T> for HashSet<T> {
    fn from_iter<I: IntoIterator<Item = T>>(iter: I) -> Self {
        let mut s = Self::new();
        for v in iter {
            let _ = s.insert(v);
        }
        s
    }
}

impl<T: Eq + Hash, const N: usize> From<[T; N]> for HashSet<T> {
    fn from(arr: [T; N]) -> Self {
        arr.into_iter().collect()
    }
}

impl<T: Eq + Hash> PartialEq for HashSet<T> {
    fn eq(&self, other: &Self) -> bool {
        self.len() == other.len() && self.is_subset(other)
    }
}
impl<T: Eq + Hash> Eq for HashSet<T> {}

impl<T: fmt::Debug> fmt::Debug for HashSet<T> {
    fn fmt(&self, f: &mut fmt::Formatter<'_>) -> fmt::Result {
        let mut m = f.debug_set();
        for i in 0..CAP {
            if let Some(e) = self.items.at(i) {
                let _ = m.entry(e);
            }
        }
        m.finish()
    }
}

impl<T> IntoIterator for HashSet<T> {
    type Item = T;
    type IntoIter = hash_set::IntoIter<T>;
    fn into_iter(self) -> Self::IntoIter {
        let order = Order::new(self.items.len());
        hash_set::IntoIter { items: self.items, order }
    }
}

impl<'a, T> IntoIterator for &'a HashSet<T> {
    type Item = &'a T;
    type IntoIter = hash_set::Iter<'a, T>;
    fn into_iter(self) -> Self::IntoIter {
        self.iter()
    }
}

pub mod hash_set {
    use super::{HashSet, Order, Slots};
    use std::hash::Hash;

    #[derive(Clone)]
    pub struct Iter<'a, T> {
        pub(super) items: &'a Slots<T>,
        pub(super) order: Order,
    }
    impl<'a, T> Iterator for Iter<'a, T> {
        type Item = &'a T;
        fn next(&mut self) -> Option<&'a T> {
            loop {
                match self.order.next() {
                    Some(i) => {
                        if let Some(e) = self.items.at(i) {
                            return Some(e);
                        }
                    }
                    None => return None,
                }
            }
        }
    }

    pub struct IntoIter<T> {
        pub(super) items: Slots<T>,
        pub(super) order: Order,
    }
    impl<T> Iterator for IntoIter<T> {
        type Item = T;
        fn next(&mut self) -> Option<T> {
            loop {
                match self.order.next() {
                    Some(i) => {
                        if let Some(e) = self.items.take_at(i) {
                            return Some(e);
                        }
                    }
                    None => return None,
                }
            }
        }
    }

    #[derive(Clone)]
    pub struct Difference<'a, T> {
        pub(super) iter: Iter<'a, T>,
        pub(super) other: &'a HashSet<T>,
    }
    impl<'a, T: Eq + Hash> Iterator for Difference<'a, T> {
        type Item = &'a T;
        fn next(&mut self) -> Option<&'a T> {
            loop {
                match self.iter.next() {
                    Some(v) if !self.other.contains(v) => return Some(v),
                    Some(_) => continue,
                    None => return None,
                }
            }
        }
    }

    #[derive(Clone)]
    pub struct Intersection<'a, T> {
        pub(super) iter: Iter<'a, T>,
        pub(super) other: &'a HashSet<T>,
    }
    impl<'a, T: Eq + Hash> Iterator for Intersection<'a, T> {
        type Item = &'a T;
        fn next(&mut self) -> Option<&'a T> {
            loop {
                match self.iter.next() {
                    Some(v) if self.other.contains(v) => return Some(v),
                    Some(_) => continue,
                    None => return None,
                }
            }
        }
    }

    #[derive(Clone)]
    pub struct Union<'a, T> {
        pub(super) first: Iter<'a, T>,
        pub(super) second: Difference<'a, T>,
    }
    impl<'a, T: Eq + Hash> Iterator for Union<'a, T> {
        type Item = &'a T;
        fn next(&mut self) -> Option<&'a T> {
            match self.first.next() {
                Some(v) => Some(v),
                None => self.second.next(),
            }
        }
    }
}

#[cfg(test)]
mod tests {
    //! Native differential test against std for every method bgpfu-rs uses.
    use super::*;
    use std::collections as sc;

    fn lcg(s: &mut u64) -> u64 {
        *s = s.wrapping_mul(6364136223846793005).wrapping_add(1442695040888963407);
        *s >> 33
    }

    #[test]
    fn set_differential() {
        let mut seed = 7u64;
        for _ in 0..2000 {
            let mut a = HashSet::new();
            let mut ra = sc::HashSet::new();
            let mut b = HashSet::new();
            let mut rb = sc::HashSet::new();
            for _ in 0..(lcg(&mut seed) % 6) {
                let v = lcg(&mut seed) % 5;
                assert_eq!(a.insert(v), ra.insert(v));
            }
            for _ in 0..(lcg(&mut seed) % 6) {
                let v = lcg(&mut seed) % 5;
                assert_eq!(b.insert(v), rb.insert(v));
            }
            assert_eq!(a.len(), ra.len());
            assert_eq!(a.is_empty(), ra.is_empty());
            let norm = |it: Vec<u64>| {
                let mut v = it;
                v.sort();
                v
            };
            assert_eq!(norm(a.iter().copied().collect()), norm(ra.iter().copied().collect()));
            assert_eq!(norm(a.difference(&b).copied().collect()), norm(ra.difference(&rb).copied().collect()));
            assert_eq!(norm(a.intersection(&b).copied().collect()), norm(ra.intersection(&rb).copied().collect()));
            assert_eq!(norm(a.union(&b).copied().collect()), norm(ra.union(&rb).copied().collect()));
            assert_eq!(a == b, ra == rb);
            for v in 0..5 {
                assert_eq!(a.contains(&v), ra.contains(&v));
            }
            let c: HashSet<u64> = ra.iter().copied().collect();
            assert!(c == a);
        }
    }

    #[test]
    fn map_differential() {
        let mut seed = 11u64;
        for _ in 0..2000 {
            let mut a = HashMap::new();
            let mut ra = sc::HashMap::new();
            for _ in 0..(lcg(&mut seed) % 8) {
                let k = lcg(&mut seed) % 5;
                let v = lcg(&mut seed) % 3;
                match lcg(&mut seed) % 4 {
                    0 => assert_eq!(a.insert(k, v), ra.insert(k, v)),
                    1 => assert_eq!(a.remove(&k), ra.remove(&k)),
                    2 => {
                        let x = match a.entry(k) {
                            hash_map::Entry::Occupied(_) => false,
                            hash_map::Entry::Vacant(e) => {
                                let _ = e.insert(v);
                                true
                            }
                        };
                        let y = match ra.entry(k) {
                            sc::hash_map::Entry::Occupied(_) => false,
                            sc::hash_map::Entry::Vacant(e) => {
                                let _ = e.insert(v);
                                true
                            }
                        };
                        assert_eq!(x, y);
                    }
                    _ => {
                        assert_eq!(a.get_mut(&k).map(|x| {
                            *x += 1;
                            *x
                        }), ra.get_mut(&k).map(|x| {
                            *x += 1;
                            *x
                        }));
                    }
                }
            }
            assert_eq!(a.len(), ra.len());
            let norm = |mut v: Vec<(u64, u64)>| {
                v.sort();
                v
            };
            assert_eq!(norm(a.iter().map(|(k, v)| (*k, *v)).collect()), norm(ra.iter().map(|(k, v)| (*k, *v)).collect()));
            let mut ks: Vec<u64> = a.keys().copied().collect();
            ks.sort();
            let mut rks: Vec<u64> = ra.keys().copied().collect();
            rks.sort();
            assert_eq!(ks, rks);
            let mut vs: Vec<u64> = a.values().copied().collect();
            vs.sort();
            let mut rvs: Vec<u64> = ra.values().copied().collect();
            rvs.sort();
            assert_eq!(vs, rvs);
            for k in 0..5 {
                assert_eq!(a.get(&k), ra.get(&k));
            }
            let b: HashMap<u64, u64> = ra.iter().map(|(k, v)| (*k, *v)).collect();
            assert!(a == b);
            assert_eq!(norm(a.clone().into_iter().collect()), norm(ra.clone().into_iter().collect()));
        }
    }
}

//! C08 for `load_configuration::Reply`.  Child module of
//! `message::rpc::operation::junos::load_configuration`.
use super::*;
use crate::message::rpc::error::verif_error as ve;
use crate::verif_support::*;
use quick_xml::events::BytesStart;
use quick_xml::tape::{self, Cell, Tape};

const N_INNER: usize = 2;

/// Items inside `<load-configuration-results>`.
#[derive(Clone, Copy, PartialEq, Eq)]
enum Inner {
    Ok,
    OkPair,
    ErrError,
    ErrWarning,
    /// `<load-error-count>k</load-error-count>`, k in 0..=3
    Count(u8),
    Comment,
    Other,
}

fn any_inner() -> Inner {
    let c: u8 = kani::any();
    kani::assume(c < 10);
    // quick tier: <ok/>, rpc-error (error / warning), load-error-count 1 (see support.rs)
    #[cfg(not(feature = "verif_deep"))]
    kani::assume(c == 0 || c == 2 || c == 3 || c == 5);
    match c {
        0 => Inner::Ok,
        1 => Inner::OkPair,
        2 => Inner::ErrError,
        3 => Inner::ErrWarning,
        4 => Inner::Count(0),
        5 => Inner::Count(1),
        6 => Inner::Count(2),
        7 => Inner::Count(3),
        8 => Inner::Comment,
        _ => Inner::Other,
    }
}

const RESULTS_START: Cell = Cell::start(BASE, n::LOAD_RESULTS);
const RESULTS_END: Cell = Cell::end(BASE, n::LOAD_RESULTS);
const COUNT_START: Cell = Cell::start(BASE, n::LOAD_ERROR_COUNT);
const COUNT_END: Cell = Cell::end(BASE, n::LOAD_ERROR_COUNT);

fn push_inner(t: &mut Tape, i: Inner) {
    match i {
        Inner::Ok => t.push(cells::OK),
        Inner::OkPair => {
            t.push(cells::OK_START);
            t.push(cells::OK_END);
        }
        Inner::ErrError => {
            t.push(ERR_ERROR_START);
            t.push(ERR_END);
        }
        Inner::ErrWarning => {
            t.push(ERR_WARNING_START);
            t.push(ERR_END);
        }
        Inner::Count(k) => {
            t.push(COUNT_START);
            t.push(Cell::text(t::N0 + k));
            t.push(COUNT_END);
        }
        Inner::Comment => t.push(cells::COMMENT),
        Inner::Other => t.push(cells::OTHER),
    }
}

/// C08, `load_configuration::Reply`: `<load-configuration-results>` with up to 3 inner items.
#[kani::proof]
#[kani::unwind(12)]
#[kani::stub(<crate::message::rpc::Error as crate::message::ReadXml>::read_xml, crate::message::rpc::error::verif_error::stub_read_xml)]
#[kani::stub(crate::message::rpc::Errors::new, crate::message::rpc::error::verif_error::stub_errors_new)]
#[kani::stub(crate::message::rpc::Errors::push, crate::message::rpc::error::verif_error::stub_errors_push)]
fn c08_load_configuration_reply() {
    use_reply_tables();
    let items: [Inner; N_INNER] = [Inner::Ok; N_INNER].map(|_| any_inner());
    let n: usize = kani::any();
    kani::assume(n <= N_INNER);
    let with_results: bool = kani::any();
    let mut t = Tape::EMPTY;
    if with_results {
        t.push(RESULTS_START);
        let mut i = 0;
        while i < N_INNER {
            if i < n {
                push_inner(&mut t, items[i]);
            }
            i += 1;
        }
        t.push(RESULTS_END);
    }
    reply_close(&mut t);
    tape::register(0, t);
    let mut reader = NsReader::from_str(tape::input_for(0));
    let _ = reader.trim_text(true);
    let start = BytesStart::from_id(n::RPC_REPLY);
    let res = Reply::read_xml(&mut reader, &start);
    // facts
    let mut has_error = false;
    let mut n_err = 0usize;
    let mut sev = [0u8; N_INNER];
    let mut has_ok = false;
    let mut i = 0;
    while i < N_INNER {
        if with_results && i < n {
            match items[i] {
                Inner::ErrError => {
                    has_error = true;
                    sev[n_err] = ve::SEV_ERROR;
                    n_err += 1;
                }
                Inner::ErrWarning => {
                    sev[n_err] = ve::SEV_WARNING;
                    n_err += 1;
                }
                Inner::Ok | Inner::OkPair => has_ok = true,
                _ => {}
            }
        }
        i += 1;
    }
    match &res {
        Ok(Reply::Ok) => {
            assert!(!has_error, "C08 load-configuration: a reply carrying rpc-error(error) was reported as success");
            assert!(has_ok, "C08 load-configuration: success reported without <ok/> inside <load-configuration-results>");
        }
        Ok(Reply::Errs(errs)) => {
            let mut ok = errs.len() == n_err;
            let mut k = 0;
            while k < N_INNER {
                if k < n_err {
                    ok &= ve::nth_severity(errs, k) == Some(sev[k]);
                }
                k += 1;
            }
            assert!(ok, "C08 load-configuration: reported errors are not exactly the reply's rpc-errors, in order");
        }
        Err(_) => {}
    }
    kani::cover!(matches!(res, Ok(Reply::Ok)), "some reply is Ok");
    kani::cover!(matches!(res, Ok(Reply::Errs(_))), "some reply is Errs");
    kani::cover!(matches!(res, Ok(Reply::Ok)) && n_err > 0, "ok after a warning");
    std::mem::forget(res);
}

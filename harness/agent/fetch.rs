//! C16: which policy statements are selected as managed.  Child module of `policies::fetch`.
use super::*;
use quick_xml::events::BytesStart;
use quick_xml::tape::{self, ns, AttrCell, AttrName, Cell, Tape, TextEntry};

static NAMES: [&[u8]; 6] = [b"", b"policy-statement", b"name", b"then", b"reject", b"accept"];

mod tx {
    pub const FALSE: u8 = 1;
    pub const TRUE: u8 = 2;
    pub const ANNOT_DECORATED: u8 = 3; // "/* bgpfu-fltr: AS-FOO */"
    pub const ANNOT_PLAIN: u8 = 4; // "bgpfu-fltr:AS65000"
    pub const UNRELATED: u8 = 5; // "/* unrelated */"
    pub const ANNOT_BAD: u8 = 6; // "/* bgpfu-fltr: BAD */"
    pub const POLICY_NAME: u8 = 7;
    pub const JCMD_URI: u8 = 8;
}

static TEXTS: [TextEntry; 9] = [
    TextEntry::plain(""),
    TextEntry::plain("false"),
    TextEntry::plain("true"),
    TextEntry::plain("/* bgpfu-fltr: AS-FOO */"),
    TextEntry::plain("bgpfu-fltr:AS65000"),
    TextEntry::plain("/* unrelated */"),
    TextEntry::plain("/* bgpfu-fltr: BAD */"),
    TextEntry::plain("fltr-a"),
    TextEntry::plain("http://yang.juniper.net/junos/jcmd"),
];

mod an {
    pub const ACTIVE: u8 = 0;
    pub const COMMENT: u8 = 1;
    pub const XMLNS_JCMD: u8 = 2;
    pub const OTHER_COMMENT: u8 = 3;
}

static ATTRS: [AttrName; 4] = [
    AttrName { qname: b"jcmd:active", local: b"active", ns: ns::JCMD },
    AttrName { qname: b"jcmd:comment", local: b"comment", ns: ns::JCMD },
    AttrName { qname: b"xmlns:jcmd", local: b"jcmd", ns: ns::UNKNOWN },
    AttrName { qname: b"o:comment", local: b"comment", ns: ns::OTHER },
];

static POOL: [&str; 2] = ["AS-FOO", "AS65000"];

const X: u8 = ns::XNM;

/// What the attribute slots declare (for the oracle).
struct AttrFacts {
    inactive: bool,
    annotation: Option<u8>,
    n_comment: u8,
}

/// `N` attribute slots, each of any kind from {jcmd:active=false|true, jcmd:comment=<one of 4
/// comments>, xmlns:jcmd, o:comment (foreign namespace)} - at most one jcmd:active and one
/// jcmd:comment, as XML requires.
fn any_attrs<const N: usize>(t: &mut Tape) -> AttrFacts {
    let mut f = AttrFacts { inactive: false, annotation: None, n_comment: 0 };
    let mut n_active = 0u8;
    let mut k = 0;
    while k < N {
        let kind: u8 = kani::any();
        kani::assume(kind < 4);
        let val: u8 = match kind {
            an::ACTIVE => {
                n_active += 1;
                let v: bool = kani::any();
                if !v {
                    f.inactive = true;
                }
                if v { tx::TRUE } else { tx::FALSE }
            }
            an::COMMENT => {
                f.n_comment += 1;
                let c: u8 = kani::any();
                kani::assume(c >= tx::ANNOT_DECORATED && c <= tx::ANNOT_BAD);
                if c == tx::ANNOT_DECORATED {
                    f.annotation = Some(0);
                } else if c == tx::ANNOT_PLAIN {
                    f.annotation = Some(1);
                }
                c
            }
            an::XMLNS_JCMD => tx::JCMD_URI,
            _ => tx::ANNOT_DECORATED, // a bgpfu-looking comment in a foreign namespace must be ignored
        };
        t.attrs[k] = AttrCell::new(kind, val);
        k += 1;
    }
    kani::assume(n_active <= 1 && f.n_comment <= 1);
    f
}

/// Body of the statement in two fixed windows of 3 positions (all pushes unconditional, so
/// cursor positions are constants for symex): 0 = name + `then reject`, 1 = name only,
/// 2 = `then reject` only, 3 = name + `then accept`.
fn push_body(t: &mut Tape, body: u8) {
    const NONE: Cell = Cell::NONE;
    let name: [Cell; 3] = [Cell::start(X, 2), Cell::text(tx::POLICY_NAME), Cell::end(X, 2)];
    let then = |action: u8| -> [Cell; 3] { [Cell::start(X, 3), Cell::empty(X, action), Cell::end(X, 3)] };
    let nop: [Cell; 3] = [Cell::nop(3), NONE, NONE];
    let (w1, w2) = match body {
        0 => (name, then(4)),
        1 => (name, nop),
        2 => (then(4), nop),
        _ => (name, then(5)),
    };
    let mut j = 0;
    while j < 3 {
        t.push(w1[j]);
        j += 1;
    }
    j = 0;
    while j < 3 {
        t.push(w2[j]);
        j += 1;
    }
    t.push(Cell::end(X, 1));
}

fn run_and_check(t: Tape, nattr: u8, f: &AttrFacts, body: u8) {
    tape::register(0, t);
    let mut reader = NsReader::from_str(tape::input_for(0));
    let _ = reader.trim_text(true);
    let start_cell = Cell::start(X, 1).with_attrs(0, nattr);
    let start = BytesStart::from_cell(0, &start_cell);
    let res = Maybe::<Candidate>::read_xml(&mut reader, &start);
    // oracle
    let has_name = body != 2;
    let default_reject = body == 0 || body == 2;
    let considered = !f.inactive && f.annotation.is_some();
    let selected = considered && default_reject;
    match &res {
        Ok(Maybe(Some((name, cand)))) => {
            assert!(selected && has_name, "C16: a statement that is inactive, unannotated or not a plain reject was selected as managed");
            assert!(name.as_ref() == "fltr-a", "C16: policy name differs from the configuration's");
            assert!(Some(cand.filter_expr.pool_index()) == f.annotation, "C16: filter expression differs from the annotation's");
        }
        Ok(Maybe(None)) => assert!(!selected, "C16: an active, annotated, default-reject statement was not selected"),
        Err(_) => assert!(considered && (body == 3 || !has_name), "C16: statement rejected with an error although it is well-formed"),
    }
    kani::cover!(res.is_ok(), "some statement is read");
    std::mem::forget(res);
}

/// C16, attribute scan: one `<policy-statement>` with two attributes in any order and the plain
/// body (name, then reject).  The reader's selection must equal the independent oracle: managed
/// iff not inactive and annotated with a parseable `bgpfu-fltr:` expression; the expression is
/// the annotation's.
#[kani::proof]
#[kani::unwind(27)]
fn c16_attribute_scan() {
    tape::set_tables(&NAMES, &TEXTS, &ATTRS);
    rpsl::model::set_pool(&POOL);
    let mut t = Tape::EMPTY;
    let f = any_attrs::<2>(&mut t);
    push_body(&mut t, 0);
    run_and_check(t, 2, &f, 0);
}

/// C16, attribute scan with a single attribute, the attribute cases walked by a concrete loop
/// (a *symbolic* comment text makes `trim_matches` / `trim` / `strip_prefix` iterate over an
/// `ite` of strings and the harness needs 14 minutes; enumerated it needs a fraction): no
/// attribute, jcmd:active=false, jcmd:active=true, jcmd:comment with each of the 4 texts
/// (decorated annotation, plain annotation, unrelated comment, unparsable expression),
/// xmlns:jcmd, and a bgpfu-looking comment in a foreign namespace.
#[kani::proof]
#[kani::unwind(27)]
fn c16_attribute_scan_single() {
    tape::set_tables(&NAMES, &TEXTS, &ATTRS);
    rpsl::model::set_pool(&POOL);
    // (number of attributes, kind, value, inactive, annotation)
    const CASES: [(u8, u8, u8, bool, Option<u8>); 9] = [
        (0, 0, 0, false, None),
        (1, an::ACTIVE, tx::FALSE, true, None),
        (1, an::ACTIVE, tx::TRUE, false, None),
        (1, an::COMMENT, tx::ANNOT_DECORATED, false, Some(0)),
        (1, an::COMMENT, tx::ANNOT_PLAIN, false, Some(1)),
        (1, an::COMMENT, tx::UNRELATED, false, None),
        (1, an::COMMENT, tx::ANNOT_BAD, false, None),
        (1, an::XMLNS_JCMD, tx::JCMD_URI, false, None),
        (1, an::OTHER_COMMENT, tx::ANNOT_DECORATED, false, None),
    ];
    let mut i = 0;
    while i < 9 {
        let (nattr, kind, val, inactive, annotation) = CASES[i];
        let mut t = Tape::EMPTY;
        t.attrs[0] = AttrCell::new(kind, val);
        let f = AttrFacts { inactive, annotation, n_comment: (kind == an::COMMENT && nattr == 1) as u8 };
        push_body_concrete(&mut t, 0);
        run_and_check(t, nattr, &f, 0);
        i += 1;
    }
    kani::cover!(true, "all attribute cases walked");
}

/// C16, body scan: an active statement annotated with a valid expression and each of the four
/// bodies (name + reject, name only, reject only, name + accept), walked by a concrete loop.
#[kani::proof]
#[kani::unwind(27)]
fn c16_body_scan() {
    tape::set_tables(&NAMES, &TEXTS, &ATTRS);
    rpsl::model::set_pool(&POOL);
    let mut body = 0u8;
    while body < 4 {
        let mut t = Tape::EMPTY;
        t.attrs[0] = AttrCell::new(an::COMMENT, tx::ANNOT_DECORATED);
        let f = AttrFacts { inactive: false, annotation: Some(0), n_comment: 1 };
        push_body_concrete(&mut t, body);
        run_and_check(t, 1, &f, body);
        body += 1;
    }
    kani::cover!(true, "all bodies walked");
}

/// C16, attribute scan with two attributes in either order (what Junos emits for a statement
/// that is both annotated and (in)active, including its duplicated `xmlns:jcmd`): 8 cases
/// walked by a concrete loop.
#[kani::proof]
#[kani::unwind(27)]
fn c16_attribute_pairs() {
    tape::set_tables(&NAMES, &TEXTS, &ATTRS);
    rpsl::model::set_pool(&POOL);
    // ((kind, value), (kind, value), inactive, annotation)
    const CASES: [((u8, u8), (u8, u8), bool, Option<u8>); 8] = [
        ((an::ACTIVE, tx::FALSE), (an::COMMENT, tx::ANNOT_DECORATED), true, Some(0)),
        ((an::COMMENT, tx::ANNOT_DECORATED), (an::ACTIVE, tx::FALSE), true, Some(0)),
        ((an::ACTIVE, tx::TRUE), (an::COMMENT, tx::ANNOT_PLAIN), false, Some(1)),
        ((an::COMMENT, tx::ANNOT_PLAIN), (an::ACTIVE, tx::TRUE), false, Some(1)),
        ((an::XMLNS_JCMD, tx::JCMD_URI), (an::COMMENT, tx::ANNOT_DECORATED), false, Some(0)),
        ((an::XMLNS_JCMD, tx::JCMD_URI), (an::XMLNS_JCMD, tx::JCMD_URI), false, None),
        ((an::OTHER_COMMENT, tx::ANNOT_DECORATED), (an::COMMENT, tx::UNRELATED), false, None),
        ((an::COMMENT, tx::ANNOT_BAD), (an::ACTIVE, tx::TRUE), false, None),
    ];
    let mut i = 0;
    while i < 8 {
        let (a0, a1, inactive, annotation) = CASES[i];
        let mut t = Tape::EMPTY;
        t.attrs[0] = AttrCell::new(a0.0, a0.1);
        t.attrs[1] = AttrCell::new(a1.0, a1.1);
        let f = AttrFacts { inactive, annotation, n_comment: 1 };
        push_body_concrete(&mut t, 0);
        run_and_check(t, 2, &f, 0);
        i += 1;
    }
    kani::cover!(true, "all attribute pairs walked");
}

/// Like `push_body`, for a concrete `body` (plain pushes, no windows).
fn push_body_concrete(t: &mut Tape, body: u8) {
    if body != 2 {
        t.push(Cell::start(X, 2));
        t.push(Cell::text(tx::POLICY_NAME));
        t.push(Cell::end(X, 2));
    }
    if body != 1 {
        t.push(Cell::start(X, 3));
        t.push(Cell::empty(X, if body == 3 { 5 } else { 4 }));
        t.push(Cell::end(X, 3));
    }
    t.push(Cell::end(X, 1));
}

//! Harnesses that need `Session`/`Context` internals.  Child module of `session`.
//!
//! C09: builders against every capability set.
use super::*;
use crate::capabilities::Capability;
use crate::message::rpc::operation::{
    edit_config::{DefaultOperation, ErrorOption, TestOption},
    CancelCommit, Commit, CopyConfig, Datastore, DeleteConfig, DiscardChanges, EditConfig, Filter, Get, GetConfig, KillSession, Lock,
    Opaque, Token, Unlock, Validate,
};
use crate::message::rpc::Operation;

/// Server capability bits.
#[derive(Clone, Copy)]
pub struct Caps {
    pub writable_running: bool,
    pub candidate: bool,
    pub cc10: bool,
    pub cc11: bool,
    pub rollback: bool,
    pub v10: bool,
    pub v11: bool,
    pub startup: bool,
    pub xpath: bool,
    pub junos: bool,
    pub url: bool,
    pub url_file: bool,
    pub url_ftp: bool,
    pub url_http: bool,
}

impl Caps {
    pub fn any() -> Self {
        let c = Self {
            writable_running: kani::any(),
            candidate: kani::any(),
            cc10: kani::any(),
            cc11: kani::any(),
            rollback: kani::any(),
            v10: kani::any(),
            v11: kani::any(),
            startup: kani::any(),
            xpath: kani::any(),
            junos: kani::any(),
            url: kani::any(),
            url_file: kani::any(),
            url_ftp: kani::any(),
            url_http: kani::any(),
        };
        // scheme bits only mean something when :url is advertised
        kani::assume(c.url || !(c.url_file || c.url_ftp || c.url_http));
        c
    }

    pub fn context(&self) -> Context {
        // The :url scheme list always has three entries; a scheme that is not advertised is
        // replaced by a junk scheme of the same length ("xile", "xtp", "xttp").  That keeps the
        // vector and its strings at concrete sizes (symbolic-length heap data is toxic for
        // CBMC) while every subset of {file, ftp, http} is represented.
        let schemes: Vec<Box<str>> = vec![
            (if self.url_file { "file" } else { "xile" }).into(),
            (if self.url_ftp { "ftp" } else { "xtp" }).into(),
            (if self.url_http { "http" } else { "xttp" }).into(),
        ];
        fn opt(on: bool, c: Capability) -> Option<Capability> {
            if on {
                Some(c)
            } else {
                std::mem::forget(c);
                None
            }
        }
        let server = crate::capabilities::verif_caps::capabilities_from_slots([
            Some(Capability::Base(Base::V1_0)),
            opt(self.writable_running, Capability::WritableRunning),
            opt(self.candidate, Capability::Candidate),
            opt(self.cc10, Capability::ConfirmedCommitV1_0),
            opt(self.cc11, Capability::ConfirmedCommitV1_1),
            opt(self.rollback, Capability::RollbackOnError),
            opt(self.v10, Capability::ValidateV1_0),
            opt(self.v11, Capability::ValidateV1_1),
            opt(self.startup, Capability::Startup),
            opt(self.xpath, Capability::XPath),
            opt(self.junos, Capability::JunosXmlManagementProtocol),
            opt(self.url, Capability::Url(schemes)),
            None,
            None,
        ]);
        let client: Capabilities = std::iter::once(Capability::Base(Base::V1_0)).collect();
        Context::new(SessionId::new(7).unwrap(), Base::V1_0, client, server)
    }

    // RFC 6241 §8 oracle --------------------------------------------------------------------
    pub fn source_ok(&self, d: Datastore) -> bool {
        match d {
            Datastore::Running => true,
            Datastore::Candidate => self.candidate,
            Datastore::Startup => self.startup,
        }
    }
    pub fn target_ok(&self, d: Datastore) -> bool {
        match d {
            Datastore::Running => self.writable_running,
            Datastore::Candidate => self.candidate,
            Datastore::Startup => self.startup,
        }
    }
    pub fn lock_ok(&self, d: Datastore) -> bool {
        self.source_ok(d)
    }
    pub fn validate(&self) -> bool {
        self.v10 || self.v11
    }
    pub fn confirmed(&self) -> bool {
        self.cc10 || self.cc11
    }
    pub fn scheme_ok(&self, s: u8) -> bool {
        self.url
            && match s {
                0 => self.url_file,
                1 => self.url_ftp,
                _ => self.url_http,
            }
    }
}

/// `Operation::new` decomposed into its two halves — the operation-level requirement gate and
/// the builder run — without the `Option::ok_or(..)?` plumbing in between: moving
/// `Result<Result<O, Error>, Error>` values costs CBMC ~100 s per call (measured), whatever the
/// operation.  The real `Operation::new` is executed once, in `c09_operation_new_gate`.
pub fn new_decomposed<'a, O, F>(ctx: &'a Context, build_fn: F) -> Result<O, ()>
where
    O: Operation,
    F: FnOnce(O::Builder<'a>) -> Result<O, Error>,
{
    if !O::REQUIRED_CAPABILITIES.check(ctx.server_capabilities()) {
        return Err(());
    }
    match <O::Builder<'a> as Builder<'a, O>>::new(ctx).build(build_fn) {
        Ok(o) => Ok(o),
        Err(e) => {
            std::mem::forget(e);
            Err(())
        }
    }
}

pub const DATASTORES: [Datastore; 3] = [Datastore::Running, Datastore::Candidate, Datastore::Startup];

pub fn url_for(s: u8) -> &'static str {
    match s {
        0 => "file:///c",
        1 => "ftp://h/c",
        _ => "http://h/c",
    }
}

/// filter choice: 0 = none, 1 = subtree, 2 = xpath
pub fn filter_for(f: u8) -> Option<Filter> {
    match f {
        0 => None,
        1 => Some(Filter::Subtree(String::new())),
        _ => Some(Filter::XPath(String::new())),
    }
}

// Parameter values with small domains (datastore, filter type, option values) are enumerated
// by concrete loops *inside* each harness; the capability set stays symbolic, so every
// assertion is still decided for all capability subsets at once.  (A symbolic `Datastore`
// makes the required `Capability` symbolic, and comparing a symbolic `Capability` with the
// `Url(Vec<Box<str>>)` slot explores string comparisons that can never match.)

#[kani::proof]
#[kani::unwind(16)]
fn c09_get_op() {
    let caps = Caps::any();
    let ctx = caps.context();
    let mut f = 0u8;
    while f < 3 {
        let r = new_decomposed::<Get, _>(&ctx, |b| b.filter(filter_for(f)).finish());
        let allowed = f != 2 || caps.xpath;
        assert!(r.is_ok() == allowed, "C09 get: request built iff its filter type is permitted by the capabilities");
        kani::cover!(r.is_ok() && f == 2, "xpath filter accepted");
        std::mem::forget(r);
        f += 1;
    }
    std::mem::forget(ctx);
}

fn get_config_for(di: usize) {
    let caps = Caps::any();
    let ctx = caps.context();
    let d = DATASTORES[di];
    let mut f = 0u8;
    while f < 3 {
        let r = new_decomposed::<GetConfig<Opaque>, _>(&ctx, |b| b.source(d)?.filter(filter_for(f))?.finish());
        let allowed = caps.source_ok(d) && (f != 2 || caps.xpath);
        assert!(r.is_ok() == allowed, "C09 get-config: request built iff source datastore and filter type are permitted");
        kani::cover!(r.is_ok() && f == 2, "xpath filter accepted");
        kani::cover!(r.is_err() && f == 2, "get-config refused");
        std::mem::forget(r);
        f += 1;
    }
    std::mem::forget(ctx);
}

#[kani::proof]
#[kani::unwind(16)]
fn c09_get_config_running() {
    get_config_for(0)
}

#[kani::proof]
#[kani::unwind(16)]
fn c09_get_config_candidate() {
    get_config_for(1)
}

#[kani::proof]
#[kani::unwind(16)]
fn c09_get_config_startup() {
    get_config_for(2)
}

#[kani::proof]
#[kani::unwind(16)]
fn c09_lock_unlock() {
    let caps = Caps::any();
    let ctx = caps.context();
    let mut di = 0;
    while di < 3 {
        let d = DATASTORES[di];
        let r = new_decomposed::<Lock, _>(&ctx, |b| b.target(d)?.finish());
        let u = new_decomposed::<Unlock, _>(&ctx, |b| b.target(d)?.finish());
        assert!(r.is_ok() == caps.lock_ok(d), "C09 lock: built iff the target datastore is permitted");
        assert!(u.is_ok() == caps.lock_ok(d), "C09 unlock: built iff the target datastore is permitted");
        kani::cover!(r.is_ok() && di == 1, "lock candidate accepted");
        kani::cover!(r.is_err(), "lock refused");
        std::mem::forget((r, u));
        di += 1;
    }
    std::mem::forget(ctx);
}

fn commit_for(set_persist: bool, set_persist_id: bool) {
    let caps = Caps::any();
    let ctx = caps.context();
    // which optional parameters the caller sets
    let set_confirmed: bool = kani::any();
    let confirmed_val: bool = kani::any();
    let set_timeout: bool = kani::any();
    let r = new_decomposed::<Commit, _>(&ctx, |mut b| {
        if set_confirmed {
            b = b.confirmed(confirmed_val)?;
        }
        if set_timeout {
            b = b.confirm_timeout(std::time::Duration::from_secs(30))?;
        }
        if set_persist {
            b = b.persist(Some(Token::new("t")))?;
        }
        if set_persist_id {
            b = b.persist_id(Some(Token::new("t")))?;
        }
        b.finish()
    });
    let confirmed = set_confirmed && confirmed_val;
    // what the request content needs (RFC 6241 §8.3, §8.4)
    let needs_ok = caps.candidate
        && (!(set_confirmed || set_timeout) || caps.confirmed())
        && (!(set_persist || set_persist_id) || caps.cc11);
    // parameter combinations the operation itself forbids
    let combo_ok = !(confirmed && set_persist_id) && !(!confirmed && set_persist);
    if r.is_ok() {
        assert!(needs_ok, "C09 commit: request built although a parameter is not permitted by the capabilities");
    }
    if needs_ok && combo_ok {
        assert!(r.is_ok(), "C09 commit: request within the advertised capabilities refused");
    }
    if !(set_persist && set_persist_id) {
        // (persist together with persist-id is an invalid combination whatever `confirmed` is)
        kani::cover!(r.is_ok(), "commit accepted");
    }
    kani::cover!(r.is_err() && caps.candidate, "commit refused although :candidate is advertised");
    std::mem::forget(r);
    std::mem::forget(ctx);
}

#[kani::proof]
#[kani::unwind(16)]
fn c09_commit_plain() {
    commit_for(false, false)
}

#[kani::proof]
#[kani::unwind(16)]
fn c09_commit_persist() {
    commit_for(true, false)
}

#[kani::proof]
#[kani::unwind(16)]
fn c09_commit_persist_id() {
    commit_for(false, true)
}

#[kani::proof]
#[kani::unwind(16)]
fn c09_commit_persist_both() {
    commit_for(true, true)
}

#[kani::proof]
#[kani::unwind(16)]
fn c09_simple_ops() {
    let caps = Caps::any();
    let ctx = caps.context();
    let set_pid: bool = kani::any();
    let cc = new_decomposed::<CancelCommit, _>(&ctx, |mut b| {
        if set_pid {
            b = b.persist_id(Some(Token::new("t")))?;
        }
        b.finish()
    });
    assert!(cc.is_ok() == caps.cc11, "C09 cancel-commit: built iff :confirmed-commit:1.1");
    let dc = new_decomposed::<DiscardChanges, _>(&ctx, |b| b.finish());
    assert!(dc.is_ok() == caps.candidate, "C09 discard-changes: built iff :candidate");
    let sid: u32 = kani::any();
    let ks = new_decomposed::<KillSession, _>(&ctx, |b| b.session_id(sid)?.finish());
    assert!(ks.is_ok() == (sid != 0 && sid != 7), "C09 kill-session: built iff the id is valid and not the own session");
    let cs = new_decomposed::<CloseSession, _>(&ctx, Builder::finish);
    assert!(cs.is_ok(), "C09 close-session: always permitted");
    kani::cover!(cc.is_ok() && set_pid, "cancel-commit with persist-id accepted");
    std::mem::forget((cc, dc, ks, cs));
    std::mem::forget(ctx);
}

fn validate_for(from: usize, to: usize, inline: bool) {
    let caps = Caps::any();
    let ctx = caps.context();
    if inline {
        let vi = new_decomposed::<Validate, _>(&ctx, |b| b.config(String::new()).finish());
        assert!(vi.is_ok() == caps.validate(), "C09 validate (inline config): built iff :validate");
        kani::cover!(vi.is_ok(), "validate inline accepted");
        std::mem::forget(vi);
    }
    let mut di = from;
    while di < to {
        let d = DATASTORES[di];
        let v = new_decomposed::<Validate, _>(&ctx, |b| b.source(d)?.finish());
        assert!(v.is_ok() == (caps.validate() && caps.source_ok(d)), "C09 validate: built iff :validate and the source datastore are permitted");
        kani::cover!(v.is_ok(), "validate datastore accepted");
        kani::cover!(v.is_err(), "validate refused");
        std::mem::forget(v);
        di += 1;
    }
    std::mem::forget(ctx);
}

#[kani::proof]
#[kani::unwind(16)]
fn c09_validate_inline_and_running() {
    validate_for(0, 1, true)
}

#[kani::proof]
#[kani::unwind(16)]
fn c09_validate_candidate_startup() {
    validate_for(1, 3, false)
}

#[kani::proof]
#[kani::unwind(16)]
fn c09_delete_config() {
    let caps = Caps::any();
    let ctx = caps.context();
    let mut di = 0;
    while di < 3 {
        let d = DATASTORES[di];
        let del = new_decomposed::<DeleteConfig, _>(&ctx, |b| b.target(d)?.finish());
        let del_allowed = di != 0 && caps.target_ok(d);
        assert!(del.is_ok() == del_allowed, "C09 delete-config: built iff the target is not running and is permitted");
        kani::cover!(del.is_ok(), "delete-config accepted");
        kani::cover!(del.is_err() && di == 2, "delete-config startup refused");
        std::mem::forget(del);
        di += 1;
    }
    std::mem::forget(ctx);
}

fn copy_config_for(ti: usize) {
    let caps = Caps::any();
    let ctx = caps.context();
    let t = DATASTORES[ti];
    let ri = new_decomposed::<CopyConfig, _>(&ctx, |b| b.target(t)?.config(String::new()).finish());
    assert!(ri.is_ok() == caps.target_ok(t), "C09 copy-config (inline source): built iff the target datastore is permitted");
    std::mem::forget(ri);
    let mut si = 0;
    while si < 3 {
        let s = DATASTORES[si];
        let r = new_decomposed::<CopyConfig, _>(&ctx, |b| b.target(t)?.source(s)?.finish());
        assert!(r.is_ok() == (caps.target_ok(t) && caps.source_ok(s)), "C09 copy-config: built iff target and source datastores are permitted");
        kani::cover!(r.is_ok() && si == 1, "copy from candidate accepted");
        kani::cover!(r.is_err(), "copy-config refused");
        std::mem::forget(r);
        si += 1;
    }
    std::mem::forget(ctx);
}

#[kani::proof]
#[kani::unwind(16)]
fn c09_copy_config_to_running() {
    copy_config_for(0)
}

#[kani::proof]
#[kani::unwind(16)]
fn c09_copy_config_to_candidate() {
    copy_config_for(1)
}

#[kani::proof]
#[kani::unwind(16)]
fn c09_copy_config_to_startup() {
    copy_config_for(2)
}

pub const TEST_OPTIONS: [TestOption; 3] = [TestOption::TestThenSet, TestOption::Set, TestOption::TestOnly];
pub const ERROR_OPTIONS: [ErrorOption; 3] = [ErrorOption::StopOnError, ErrorOption::ContinueOnError, ErrorOption::RollbackOnError];

#[kani::proof]
#[kani::unwind(16)]
fn c09_edit_config_target() {
    let caps = Caps::any();
    let ctx = caps.context();
    let mut ti = 0;
    while ti < 3 {
        let t = DATASTORES[ti];
        let r = new_decomposed::<EditConfig<Opaque>, _>(&ctx, |b| {
            b.target(t)?.config(Opaque::from("")).default_operation(DefaultOperation::None).finish()
        });
        assert!(r.is_ok() == caps.target_ok(t), "C09 edit-config: built iff the target datastore is permitted");
        kani::cover!(r.is_ok() && ti == 0, "edit running accepted");
        kani::cover!(r.is_err(), "edit-config refused");
        std::mem::forget(r);
        ti += 1;
    }
    std::mem::forget(ctx);
}

fn test_option_for(k: usize) {
    let caps = Caps::any();
    kani::assume(caps.candidate);
    let ctx = caps.context();
    let test = TEST_OPTIONS[k];
    let r = new_decomposed::<EditConfig<Opaque>, _>(&ctx, |b| {
        b.target(Datastore::Candidate)?.config(Opaque::from("")).test_option(test)?.finish()
    });
    let allowed = if k == 2 { caps.v11 } else { caps.validate() };
    assert!(r.is_ok() == allowed, "C09 edit-config: built iff the test-option value is permitted");
    kani::cover!(r.is_ok(), "test-option accepted");
    kani::cover!(r.is_err(), "test-option refused");
    std::mem::forget(r);
    std::mem::forget(ctx);
}

#[kani::proof]
#[kani::unwind(16)]
fn c09_edit_config_test_then_set() {
    test_option_for(0)
}

#[kani::proof]
#[kani::unwind(16)]
fn c09_edit_config_test_set() {
    test_option_for(1)
}

#[kani::proof]
#[kani::unwind(16)]
fn c09_edit_config_test_only() {
    test_option_for(2)
}

#[kani::proof]
#[kani::unwind(16)]
fn c09_edit_config_error_option() {
    let caps = Caps::any();
    kani::assume(caps.candidate);
    let ctx = caps.context();
    let mut k = 0;
    while k < 3 {
        let err = ERROR_OPTIONS[k];
        let r = new_decomposed::<EditConfig<Opaque>, _>(&ctx, |b| {
            b.target(Datastore::Candidate)?.config(Opaque::from("")).error_option(err)?.finish()
        });
        assert!(r.is_ok() == (k != 2 || caps.rollback), "C09 edit-config: built iff the error-option value is permitted");
        kani::cover!(r.is_ok() && k == 2, "rollback-on-error accepted");
        kani::cover!(r.is_err(), "rollback-on-error refused");
        std::mem::forget(r);
        k += 1;
    }
    std::mem::forget(ctx);
}

fn url_for_scheme(s: u8) {
    let caps = Caps::any();
    let ctx = caps.context();
    let r = new_decomposed::<EditConfig<Opaque>, _>(&ctx, |b| b.target(Datastore::Candidate)?.url(url_for(s))?.finish());
    assert!(r.is_ok() == (caps.candidate && caps.scheme_ok(s)), "C09 edit-config url: built iff the URL scheme is advertised in :url");
    let d = new_decomposed::<DeleteConfig, _>(&ctx, |b| b.url(url_for(s))?.finish());
    assert!(d.is_ok() == caps.scheme_ok(s), "C09 delete-config url: built iff the URL scheme is advertised in :url");
    kani::cover!(r.is_ok(), "url accepted");
    kani::cover!(d.is_err() && caps.url, "url refused although :url advertised (other scheme)");
    std::mem::forget((r, d));
    std::mem::forget(ctx);
}

#[kani::proof]
#[kani::unwind(16)]
fn c09_url_file() {
    url_for_scheme(0)
}

#[kani::proof]
#[kani::unwind(16)]
fn c09_url_ftp() {
    url_for_scheme(1)
}

#[kani::proof]
#[kani::unwind(16)]
fn c09_url_http() {
    url_for_scheme(2)
}

#[cfg(feature = "junos")]
#[kani::proof]
#[kani::unwind(16)]
fn c09_junos_ops() {
    use crate::message::rpc::operation::junos::{CloseConfiguration, CommitConfiguration, LockConfiguration, OpenConfiguration, UnlockConfiguration};
    let caps = Caps::any();
    let ctx = caps.context();
    let o = new_decomposed::<OpenConfiguration, _>(&ctx, |b| b.ephemeral(Some("x")).finish());
    let c = new_decomposed::<CloseConfiguration, _>(&ctx, |b| b.finish());
    let l = new_decomposed::<LockConfiguration, _>(&ctx, |b| b.finish());
    let u = new_decomposed::<UnlockConfiguration, _>(&ctx, |b| b.finish());
    let cm = new_decomposed::<CommitConfiguration, _>(&ctx, |b| b.finish());
    assert!(o.is_ok() == caps.junos, "C09 open-configuration: built iff the Junos capability is advertised");
    assert!(c.is_ok() == caps.junos, "C09 close-configuration: built iff the Junos capability is advertised");
    assert!(l.is_ok() == caps.junos, "C09 lock-configuration: built iff the Junos capability is advertised");
    assert!(u.is_ok() == caps.junos, "C09 unlock-configuration: built iff the Junos capability is advertised");
    assert!(cm.is_ok() == caps.junos, "C09 commit-configuration: built iff the Junos capability is advertised");
    kani::cover!(o.is_ok(), "junos op accepted");
    kani::cover!(o.is_err(), "junos op refused");
    std::mem::forget((o, c, l, u, cm));
    std::mem::forget(ctx);
}

/// The real `Operation::new`: the operation-level gate lets the builder run iff the required
/// capability is advertised (executed for one operation; the method is a trait default shared
/// by all of them).
#[kani::proof]
#[kani::unwind(16)]
fn c09_operation_new_gate() {
    let caps = Caps::any();
    let ctx = caps.context();
    let r = DiscardChanges::new(&ctx, |b| b.finish());
    assert!(r.is_ok() == caps.candidate, "C09 Operation::new: operation gated by its required capability");
    kani::cover!(r.is_ok(), "gate open");
    kani::cover!(r.is_err(), "gate closed");
    std::mem::forget(r);
    std::mem::forget(ctx);
}

// =================================================================================================
// C05 / C18: one step of `Session::recv` from an arbitrary valid state of the outstanding-request
// map (DESIGN.md §5 C05).

use crate::message::rpc::verif_replies as vr;
use crate::transport::{RecvHandle, SendHandle};
use crate::verif_support as sup;
use quick_xml::tape::{self, AttrCell, Cell, Tape};

/// In-memory transport: the receive side hands out scripted replies (each a tape slot).
#[derive(Debug)]
pub struct MemTransport;

#[derive(Debug)]
pub struct MemTx {
    pub sent: usize,
    pub fail: bool,
}

#[derive(Debug)]
pub struct MemRx {
    /// tape slots of the replies still to arrive
    pub slots: [u8; 2],
    pub n: usize,
    pub pos: usize,
    /// replies that are not there yet: `recv` answers Pending until the harness sets `n`
    pub taken: usize,
}

impl Transport for MemTransport {
    type SendHandle = MemTx;
    type RecvHandle = MemRx;
    fn split(self) -> (MemTx, MemRx) {
        (MemTx { sent: 0, fail: false }, MemRx { slots: [0, 1], n: 0, pos: 0, taken: 0 })
    }
}

#[async_trait::async_trait]
impl SendHandle for MemTx {
    async fn send(&mut self, _data: bytes::Bytes) -> Result<(), Error> {
        if self.fail {
            Err(Error::DequeueMessage)
        } else {
            self.sent += 1;
            Ok(())
        }
    }
}

#[async_trait::async_trait]
impl RecvHandle for MemRx {
    async fn recv(&mut self) -> Result<bytes::Bytes, Error> {
        std::future::poll_fn(|_| {
            if self.pos < self.n {
                let s = self.slots[self.pos];
                self.pos += 1;
                self.taken += 1;
                std::task::Poll::Ready(Ok(bytes::Bytes::from_static(tape::input_for(s).as_bytes())))
            } else {
                std::task::Poll::Pending
            }
        })
        .await
    }
}

// reply tapes: <rpc-reply message-id=ID><data>dID</data></rpc-reply>
pub mod st {
    pub const ID1: u8 = 12; // "101" in REPLY_TEXTS is not used here; see session_texts below
}

pub static SESSION_NAMES: [&[u8]; 4] = [b"", b"rpc-reply", b"data", b"ok"];
pub static SESSION_TEXTS: [tape::TextEntry; 7] = [
    tape::TextEntry::plain(""),
    tape::TextEntry::plain("1"),
    tape::TextEntry::plain("2"),
    tape::TextEntry::plain("9"),
    tape::TextEntry::plain("d1"),
    tape::TextEntry::plain("d2"),
    tape::TextEntry::plain("d9"),
];
pub static SESSION_ATTRS: [tape::AttrName; 1] = [tape::AttrName { qname: b"message-id", local: b"message-id", ns: tape::ns::UNBOUND }];

/// the reply tape for message-id code `c` (0 -> id 1, 1 -> id 2, 2 -> id 9)
pub fn reply_tape(c: u8) -> Tape {
    let mut t = Tape::EMPTY;
    t.attrs[0] = AttrCell::new(0, 1 + c);
    t.push(Cell::start(tape::ns::BASE, 1).with_attrs(0, 1));
    t.push(Cell::start(tape::ns::BASE, 2));
    t.push(Cell::text(4 + c));
    t.push(Cell::end(tape::ns::BASE, 2));
    t.push(Cell::end(tape::ns::BASE, 1));
    t
}

pub fn id_of_code(c: u8) -> usize {
    match c {
        0 => 1,
        1 => 2,
        _ => 9,
    }
}

type Requests = Arc<Mutex<HashMap<rpc::MessageId, OutstandingRequest>>>;

/// Slot state codes for the pre-state of one map entry.
fn entry_for(code: u8, id: usize, ready_slot: u8) -> Option<(rpc::MessageId, OutstandingRequest)> {
    match code {
        0 => None,
        1 => Some((vr::message_id(id), OutstandingRequest::Pending)),
        2 => Some((vr::message_id(id), OutstandingRequest::Ready(vr::partial_reply(id, ready_slot)))),
        _ => Some((vr::message_id(id), OutstandingRequest::Complete)),
    }
}

fn map_from(e1: Option<(rpc::MessageId, OutstandingRequest)>, e2: Option<(rpc::MessageId, OutstandingRequest)>) -> Requests {
    Arc::new(Mutex::new(HashMap::from_slots([e1, e2, None, None, None, None, None, None, None, None, None, None, None, None])))
}

/// Representation invariant of the map: a parked reply sits under its own message-id.
fn invariant(m: &HashMap<rpc::MessageId, OutstandingRequest>) -> bool {
    let mut ok = true;
    let mut k = 0;
    while k < 2 {
        let id = k + 1;
        if let Some(OutstandingRequest::Ready(p)) = m.get(&vr::message_id(id)) {
            ok &= vr::partial_reply_id(p) == id;
        }
        k += 1;
    }
    ok
}

/// `str::from_utf8` without the validation loop, for harnesses whose inputs are the one-byte
/// tape selectors (valid UTF-8 by construction).  UTF-8 handling itself is C14's subject.
pub fn from_utf8_trusting(v: &[u8]) -> Result<&str, std::str::Utf8Error> {
    Ok(unsafe { std::str::from_utf8_unchecked(v) })
}

/// C05 / C18 (slot state machine, one step from every state): `OutstandingRequest::take`
/// leaves a pending slot pending and reports "nothing yet", hands out the parked reply of a
/// ready slot exactly once (the slot becomes complete and the reply is the parked one, with its
/// own message-id), and refuses a completed slot.
#[kani::proof]
#[kani::unwind(8)]
fn c05_slot_take_step() {
    let code: u8 = kani::any();
    kani::assume(code >= 1 && code <= 3);
    let id: usize = kani::any();
    kani::assume(id == 1 || id == 2);
    let mut slot = match entry_for(code, 1, 2) {
        Some((_, s)) => s,
        None => unreachable!(),
    };
    if code == 2 && id == 2 {
        slot = OutstandingRequest::Ready(vr::partial_reply(2, 3));
    }
    let r = slot.take();
    match code {
        1 => {
            assert!(matches!(r, Ok(None)), "C05: take() on a pending slot must report that nothing is ready");
            assert!(matches!(slot, OutstandingRequest::Pending), "C05/C18: take() on a pending slot must leave it pending (a waiter that polls and is then dropped must not complete the request)");
        }
        2 => {
            match &r {
                Ok(Some(p)) => assert!(vr::partial_reply_id(p) == id, "C05: take() handed out a reply other than the parked one"),
                _ => assert!(false, "C05: take() on a ready slot must hand out the parked reply"),
            }
            assert!(matches!(slot, OutstandingRequest::Complete), "C05: a reply can be taken more than once");
        }
        _ => {
            assert!(matches!(r, Err(Error::RequestComplete)), "C05: take() on a completed slot must fail");
            assert!(matches!(slot, OutstandingRequest::Complete), "C05: a completed slot changed state");
        }
    }
    kani::cover!(code == 2 && id == 2, "ready slot holding reply 2");
    std::mem::forget(r);
    std::mem::forget(slot);
}

/// C05 (fresh message-ids): `MessageId::increment` returns a value different from every value
/// returned before - for every counter value below usize::MAX - 2 (a session that has sent
/// 2^64 requests is outside the claim), three consecutive calls.
#[kani::proof]
fn c05_message_id_is_fresh() {
    let n: usize = kani::any();
    kani::assume(n < usize::MAX - 2);
    let mut last = vr::message_id(n);
    let a = last.increment();
    let b = last.increment();
    let c = last.increment();
    let (a, b, c) = (vr::message_id_value(a), vr::message_id_value(b), vr::message_id_value(c));
    assert!(a > n && b > a && c > b, "C05: message-ids are not strictly increasing");
    assert!(vr::message_id_value(last) == c, "C05: the counter is not the id handed out last");
    kani::cover!(n > 1_000_000, "a large counter value");
}

/// C05 (inductive step): the waiter for message-id 1 runs from an arbitrary valid map state
/// (its own entry and the entry of request 2 each absent / Pending / Ready / Complete) against a
/// transport that delivers up to two further replies bearing ids from {1, 2, 9}.
#[kani::proof]
#[kani::unwind(8)]
#[kani::stub(std::str::from_utf8, from_utf8_trusting)]
#[kani::stub(<crate::message::rpc::PartialReply as crate::message::ReadXml>::read_xml, stub_partial_read_xml)]
#[kani::stub(<crate::message::rpc::operation::Opaque as crate::message::ReadXml>::read_xml, stub_opaque_by_tape)]
fn c05_recv_step_two_arrivals() {
    recv_step(2)
}

/// Same with at most one arriving reply (quick tier).
#[kani::proof]
#[kani::unwind(8)]
#[kani::stub(std::str::from_utf8, from_utf8_trusting)]
#[kani::stub(<crate::message::rpc::PartialReply as crate::message::ReadXml>::read_xml, stub_partial_read_xml)]
#[kani::stub(<crate::message::rpc::operation::Opaque as crate::message::ReadXml>::read_xml, stub_opaque_by_tape)]
fn c05_recv_step_one_arrival() {
    recv_step(1)
}

fn recv_step(max_arrivals: usize) {
    tape::set_tables(&SESSION_NAMES, &SESSION_TEXTS, &SESSION_ATTRS);
    // parked replies (if any) use tape slots 2 and 3; arriving ones slots 0 and 1
    tape::register(2, reply_tape(0));
    tape::register(3, reply_tape(1));
    let c0: u8 = kani::any();
    kani::assume(c0 < 3);
    let c1: u8 = kani::any();
    kani::assume(c1 < 3);
    tape::register(0, reply_tape(c0));
    tape::register(1, reply_tape(c1));
    let n: usize = kani::any();
    kani::assume(n <= max_arrivals);
    let s1: u8 = kani::any();
    kani::assume(s1 < 4);
    let s2: u8 = kani::any();
    kani::assume(s2 < 3);
    let requests = map_from(entry_for(s1, 1, 2), entry_for(s2, 2, 3));
    let rx = Arc::new(Mutex::new(MemRx { slots: [0, 1], n, pos: 0, taken: 0 }));
    let fut = Session::<MemTransport>::recv::<Get>(vr::message_id(1), requests.clone(), rx.clone());
    let r = tokio::model::run_bounded(fut, 2);
    // --- what must hold afterwards -------------------------------------------------------------
    assert!(!rx.is_locked(), "C05: receive lock still held after the waiter finished or suspended");
    assert!(!requests.is_locked(), "C05: map lock still held");
    let taken = rx.try_lock().unwrap().taken;
    {
        let m = requests.try_lock().unwrap();
        assert!(invariant(&m), "C05: a reply is parked under a message-id that is not its own");
    }
    match &r {
        Some(Ok(data)) => {
            assert!(&**data == "d1", "C05: the waiter for message-id 1 received a reply bearing another id");
            assert!(s1 == 2 || (s1 == 1 && ((n >= 1 && c0 == 0) || (n == 2 && c0 == 1 && s2 == 1 && c1 == 0))),
                "C05: a result was delivered although no reply with this id was parked or arrived for a pending request");
        }
        Some(Err(_)) => {}
        None => {
            // still waiting: only legitimate if the own entry is pending and no own reply has arrived
            assert!(s1 == 1, "C05: waiter suspended although its request is not pending");
            assert!(taken == n, "C05: waiter suspended although the transport has a reply ready");
        }
    }
    kani::cover!(matches!(r, Some(Ok(_))) && s1 == 1 && n == max_arrivals && c0 == (max_arrivals as u8 - 1), "own reply arrives (after the other one was parked, if two arrive)");
    kani::cover!(matches!(r, Some(Ok(_))) && s1 == 2, "own reply was already parked");
    kani::cover!(r.is_none(), "waiter keeps waiting");
    kani::cover!(matches!(r, Some(Err(_))) && n >= 1 && c0 == 2, "reply with an unknown id surfaces as an error");
    std::mem::forget(r);
    std::mem::forget(requests);
    std::mem::forget(rx);
}

// =================================================================================================
// C12: version negotiation and framing.

use crate::message::{ClientMsg, WriteXml};

/// C12: with the client's default hello, for every server base-version advertisement the
/// negotiated version is the highest common one (or the session is refused), **and** the
/// client frames its messages as RFC 6242 §4.1 prescribes for that version: end-of-message
/// framing for :base:1.0, chunked framing for :base:1.1.
#[kani::proof]
#[kani::unwind(40)]
fn c12_negotiation_and_framing() {
    // The four subsets of {:base:1.0, :base:1.1} a server can advertise are walked by a
    // concrete loop: with symbolic presence bits `Capability::eq` explores the string
    // comparisons of variants that cannot occur (measured: > 15 min), and the quantifier here
    // has only four values.  The symbolic part of C12 is the hello reader harness.
    let client = ClientHello::default().capabilities();
    let c10 = client.iter().any(|c| matches!(c, Capability::Base(Base::V1_0)));
    let c11 = client.iter().any(|c| matches!(c, Capability::Base(Base::V1_1)));
    // (the writer model does not emit the element bytes here - only what `to_xml` itself adds
    // around them is needed to tell the framing style)
    let req = rpc::Request::new(vr::message_id(1), CloseSession);
    let wire = req.to_xml();
    let (eom, chunked) = match &wire {
        Ok(bytes) => {
            let b = bytes.as_bytes();
            (b.len() >= 6 && &b[b.len() - 6..] == b"]]>]]>", b.len() >= 2 && b[0] == b'\n' && b[1] == b'#')
        }
        Err(_) => (false, false),
    };
    assert!(wire.is_ok(), "C12: the first request cannot be serialised");
    let mut k = 0u8;
    while k < 4 {
        let s10 = k & 1 != 0;
        let s11 = k & 2 != 0;
        let server = crate::capabilities::verif_caps::capabilities_from_slots([
            if s10 { Some(Capability::Base(Base::V1_0)) } else { None },
            if s11 { Some(Capability::Base(Base::V1_1)) } else { None },
            Some(Capability::Candidate),
            None, None, None, None, None, None, None, None, None, None, None,
        ]);
        let negotiated = client.highest_common_version(&server);
        match &negotiated {
            Ok(Base::V1_1) => {
                assert!(c11 && s11, "C12: negotiated :base:1.1 without both peers advertising it");
                assert!(chunked && !eom, "C12: :base:1.1 negotiated but requests are not chunk framed (RFC 6242 4.2)");
            }
            Ok(Base::V1_0) => {
                assert!(c10 && s10 && !(c11 && s11), "C12: negotiated :base:1.0 although it is not the highest common version");
                assert!(eom && !chunked, "C12: :base:1.0 negotiated but requests are not end-of-message framed");
            }
            Err(_) => assert!(!(c10 && s10) && !(c11 && s11), "C12: session refused although the peers share a base version"),
        }
        kani::cover!(matches!(negotiated, Ok(Base::V1_0)), "1.0 negotiated");
        kani::cover!(negotiated.is_err(), "refused");
        std::mem::forget((negotiated, server));
        k += 1;
    }
    std::mem::forget((wire, client));
}

// =================================================================================================
// C18: dropping a reply future.

fn c18_setup() -> (Requests, Arc<Mutex<MemRx>>) {
    tape::set_tables(&SESSION_NAMES, &SESSION_TEXTS, &SESSION_ATTRS);
    tape::register(0, reply_tape(1)); // the reply that arrives later bears message-id 2
    let requests = map_from(entry_for(1, 1, 2), entry_for(1, 2, 3));
    let rx = Arc::new(Mutex::new(MemRx { slots: [0, 1], n: 0, pos: 0, taken: 0 }));
    (requests, rx)
}

/// after the drop: locks free, and the waiter for request 2 completes with its own reply once
/// that reply is available
fn c18_survivor_completes(requests: &Requests, rx: &Arc<Mutex<MemRx>>) {
    assert!(!rx.is_locked(), "C18: receive lock still held after the reading future was dropped");
    assert!(!requests.is_locked(), "C18: map lock still held after the reading future was dropped");
    let fut2 = Session::<MemTransport>::recv::<Get>(vr::message_id(2), requests.clone(), rx.clone());
    let r2 = tokio::model::run_bounded(fut2, 2);
    match &r2 {
        Some(Ok(data)) => assert!(&**data == "d2", "C18: surviving waiter received a reply bearing another id"),
        Some(Err(_)) => assert!(false, "C18: surviving waiter failed after another future was dropped"),
        None => assert!(false, "C18: surviving waiter never completes: its reply was lost with the dropped future"),
    }
    std::mem::forget(r2);
}

/// C18: the future that is reading from the transport is dropped while it waits for bytes
/// (never polled / polled once); the other outstanding request still completes.
#[kani::proof]
#[kani::unwind(8)]
#[kani::stub(std::str::from_utf8, from_utf8_trusting)]
#[kani::stub(<crate::message::rpc::PartialReply as crate::message::ReadXml>::read_xml, stub_partial_read_xml)]
#[kani::stub(<crate::message::rpc::operation::Opaque as crate::message::ReadXml>::read_xml, stub_opaque_by_tape)]
fn c18_drop_while_waiting_for_transport() {
    let (requests, rx) = c18_setup();
    let polled: bool = kani::any();
    {
        let mut fut = Box::pin(Session::<MemTransport>::recv::<Get>(vr::message_id(1), requests.clone(), rx.clone()));
        if polled {
            assert!(tokio::model::poll_once(fut.as_mut()).is_pending());
            assert!(rx.is_locked(), "the polled future is the reader");
        }
        drop(fut);
    }
    // now the reply to request 2 arrives
    rx.try_lock().unwrap().n = 1;
    c18_survivor_completes(&requests, &rx);
    kani::cover!(polled, "dropped while it was the reader");
    kani::cover!(!polled, "dropped before the first poll");
    std::mem::forget((requests, rx));
}

/// C18: the reading future has taken another request's reply off the transport and is
/// suspended on the map lock (held by a concurrent `rpc()` that is sending) when it is dropped.
#[kani::proof]
#[kani::unwind(8)]
#[kani::stub(std::str::from_utf8, from_utf8_trusting)]
#[kani::stub(<crate::message::rpc::PartialReply as crate::message::ReadXml>::read_xml, stub_partial_read_xml)]
#[kani::stub(<crate::message::rpc::operation::Opaque as crate::message::ReadXml>::read_xml, stub_opaque_by_tape)]
fn c18_drop_at_map_lock_with_reply_in_hand() {
    let (requests, rx) = c18_setup();
    {
        let mut fut = Box::pin(Session::<MemTransport>::recv::<Get>(vr::message_id(1), requests.clone(), rx.clone()));
        assert!(tokio::model::poll_once(fut.as_mut()).is_pending());
        // a concurrent rpc() takes the map lock (it keeps it while it sends), then the reply to
        // request 2 arrives
        let guard = requests.try_lock().unwrap();
        unsafe { (*(Arc::as_ptr(&rx) as *mut Mutex<MemRx>)).get_mut().n = 1 };
        assert!(tokio::model::poll_once(fut.as_mut()).is_pending());
        kani::cover!(true, "reader suspended on the map lock");
        drop(fut);
        drop(guard);
    }
    c18_survivor_completes(&requests, &rx);
    std::mem::forget((requests, rx));
}

/// C05 (progress across a lock hand-over): the waiter for request 1 finds the receive lock
/// held by another waiter; while it waits, that other waiter reads request 1's reply off the
/// transport, parks it and releases the lock.  Nothing else will ever arrive.  The waiter must
/// then complete with its parked reply (it must look at its slot *after* it obtained the
/// receive lock, not only before).
#[kani::proof]
#[kani::unwind(8)]
#[kani::stub(std::str::from_utf8, from_utf8_trusting)]
#[kani::stub(<crate::message::rpc::PartialReply as crate::message::ReadXml>::read_xml, stub_partial_read_xml)]
#[kani::stub(<crate::message::rpc::operation::Opaque as crate::message::ReadXml>::read_xml, stub_opaque_by_tape)]
fn c05_recv_after_lock_handover() {
    tape::set_tables(&SESSION_NAMES, &SESSION_TEXTS, &SESSION_ATTRS);
    tape::register(2, reply_tape(0));
    let requests = map_from(entry_for(1, 1, 2), entry_for(1, 2, 3));
    let rx = Arc::new(Mutex::new(MemRx { slots: [0, 1], n: 0, pos: 0, taken: 0 }));
    let mut fut = Box::pin(Session::<MemTransport>::recv::<Get>(vr::message_id(1), requests.clone(), rx.clone()));
    {
        // the other waiter is the reader
        let other = rx.try_lock().unwrap();
        assert!(tokio::model::poll_once(fut.as_mut()).is_pending());
        // ... it reads and parks the reply to request 1 ...
        {
            let mut m = requests.try_lock().unwrap();
            *m.get_mut(&vr::message_id(1)).unwrap() = OutstandingRequest::Ready(vr::partial_reply(1, 2));
        }
        // ... and hands the lock over
        drop(other);
    }
    let r = tokio::model::run_bounded(fut, 2);
    match &r {
        Some(Ok(data)) => assert!(&**data == "d1", "C05: wrong reply after lock hand-over"),
        Some(Err(_)) => assert!(false, "C05: error although the own reply is parked"),
        None => assert!(false, "C05: waiter left waiting forever although its reply was parked while it waited for the receive lock"),
    }
    kani::cover!(matches!(r, Some(Ok(_))), "completes with the parked reply");
    std::mem::forget((r, requests, rx));
}

// -------------------------------------------------------------------------------------------------
// Summaries of parsing steps, for harnesses whose subject is the session bookkeeping (the
// parsers themselves are the subject of C08 / C12 / C14).  Kani cannot stub generic trait
// methods (`ServerMsg::recv`, `from_xml`, `TryFrom`), so the summaries sit on the two
// non-generic readers underneath them.

/// Summary of `<PartialReply as ReadXml>::read_xml` (first parse phase): the partial reply whose
/// message-id is the one the tape declares (attribute 0 of the tape) and whose buffer is the
/// reader's input, without walking the events.
pub fn stub_partial_read_xml(reader: &mut quick_xml::NsReader<&[u8]>, _start: &quick_xml::events::BytesStart<'_>) -> Result<rpc::PartialReply, ReadError> {
    let input: &[u8] = reader.get_ref();
    let slot = tape::slot_of_input(input).unwrap_or(0);
    let t = tape::registered(slot);
    let id = match t.attrs[0].val {
        1 => 1,
        2 => 2,
        _ => 9,
    };
    Ok(vr::partial_reply(id, slot))
}

/// Summary of `Opaque::read_xml`: consumes `<data>`, returns the data text of the tape
/// ("d1" / "d2" / "d9" by the tape's message-id).
pub fn stub_opaque_by_tape(reader: &mut quick_xml::NsReader<&[u8]>, start: &quick_xml::events::BytesStart<'_>) -> Result<Opaque, ReadError> {
    let input: &[u8] = reader.get_ref();
    let slot = tape::slot_of_input(input).unwrap_or(0);
    let t = tape::registered(slot);
    let _ = reader.read_to_end(start.to_end().name())?;
    Ok(Opaque::from(match t.attrs[0].val {
        1 => "d1",
        2 => "d2",
        _ => "d9",
    }))
}

// =================================================================================================
// C10: text-valued parameters reach the message as escaped text / attribute values.

use quick_xml::writer::{self as wlog, WKind};

fn any_text2() -> String {
    let mut s = String::with_capacity(2);
    let mut i = 0;
    while i < 2 {
        let c: u8 = kani::any();
        s.push(match c % 5 {
            0 => '<',
            1 => '&',
            2 => '"',
            3 => ']',
            _ => 'a',
        });
        i += 1;
    }
    s
}

fn concrete_junos_ctx() -> Context {
    let server = crate::capabilities::verif_caps::capabilities_from_slots([
        Some(Capability::Base(Base::V1_0)),
        Some(Capability::Candidate),
        Some(Capability::ConfirmedCommitV1_1),
        Some(Capability::XPath),
        Some(Capability::JunosXmlManagementProtocol),
        None, None, None, None, None, None, None, None, None,
    ]);
    let client = crate::capabilities::verif_caps::capabilities_from_slots([
        Some(Capability::Base(Base::V1_0)),
        None, None, None, None, None, None, None, None, None, None, None, None, None,
    ]);
    Context::new(SessionId::new(7).unwrap(), Base::V1_0, client, server)
}

/// the log shows `value` exactly once as an escaped text node (`attr` = false) or escaped
/// attribute value (`attr` = true), and no raw access to the sink
fn carried_escaped(value: &str, attr: bool) -> (bool, bool) {
    let log = wlog::log();
    let mut raw = false;
    let mut count = 0;
    let mut i = 0;
    while i < wlog::WLOG_CAP {
        if i < log.n {
            let e = &log.entries[i];
            match e.kind {
                WKind::RawAccess => raw = true,
                WKind::Text if !attr => {
                    if e.escaped && e.text_len == value.len() && e.text.as_slice() == value.as_bytes() {
                        count += 1;
                    }
                }
                WKind::Attr if attr => {
                    if e.escaped && e.text_len == value.len() && e.text.as_slice() == value.as_bytes() {
                        count += 1;
                    }
                }
                _ => {}
            }
        }
        i += 1;
    }
    (count == 1 && !log.overflow, raw)
}

/// C10: `<commit>` persist / persist-id tokens and `<cancel-commit>` persist-id.
#[kani::proof]
#[kani::unwind(50)]
fn c10_commit_tokens() {
    let ctx = concrete_junos_ctx();
    let tok = any_text2();
    let which: u8 = kani::any();
    kani::assume(which < 3);
    wlog::reset_log();
    let mut w = quick_xml::Writer::new(Vec::new());
    let ok = match which {
        0 => match new_decomposed::<Commit, _>(&ctx, |b| b.confirmed(true)?.persist(Some(Token::new(&tok)))?.finish()) {
            Ok(op) => op.write_xml(&mut w).is_ok(),
            Err(()) => false,
        },
        1 => match new_decomposed::<Commit, _>(&ctx, |b| b.persist_id(Some(Token::new(&tok)))?.finish()) {
            Ok(op) => op.write_xml(&mut w).is_ok(),
            Err(()) => false,
        },
        _ => match new_decomposed::<CancelCommit, _>(&ctx, |b| b.persist_id(Some(Token::new(&tok)))?.finish()) {
            Ok(op) => op.write_xml(&mut w).is_ok(),
            Err(()) => false,
        },
    };
    assert!(ok, "C10: request with a token could not be built / written");
    let (carried, raw) = carried_escaped(&tok, false);
    assert!(!raw, "C10 commit: token written through the raw path");
    assert!(carried, "C10 commit: token does not reach the message as escaped text with its exact value");
    kani::cover!(which == 0, "persist");
    kani::cover!(which == 2, "cancel-commit persist-id");
    std::mem::forget((w, tok, ctx));
}

/// C10: the text of a `<url>` source / target goes through the escaping writer with its exact
/// value.  The URLs are concrete (iri-string's validator over symbolic text is out of reach): one
/// without and one with the XML metacharacters that are legal in a URI (`&`, `'`).
fn url_ctx() -> Context {
    let schemes: Vec<Box<str>> = vec!["http".into()];
    let server = crate::capabilities::verif_caps::capabilities_from_slots([
        Some(Capability::Base(Base::V1_0)),
        Some(Capability::Url(schemes)),
        None, None, None, None, None, None, None, None, None, None, None, None,
    ]);
    let client = crate::capabilities::verif_caps::capabilities_from_slots([
        Some(Capability::Base(Base::V1_0)),
        None, None, None, None, None, None, None, None, None, None, None, None, None,
    ]);
    Context::new(SessionId::new(7).unwrap(), Base::V1_0, client, server)
}

fn url_text_is_escaped(url: &'static str) {
    let ctx = url_ctx();
    wlog::reset_log();
    let mut w = quick_xml::Writer::new(Vec::new());
    let ok = match new_decomposed::<DeleteConfig, _>(&ctx, |b| b.url(url)?.finish()) {
        Ok(op) => op.write_xml(&mut w).is_ok(),
        Err(()) => false,
    };
    assert!(ok, "C10 url: delete-config with a valid http URL could not be built / written");
    let (carried, raw) = carried_escaped(url, false);
    assert!(!raw, "C10 url: URL written through the raw path");
    assert!(carried, "C10 url: URL does not reach the message as escaped text with its exact value");
    kani::cover!(ok, "written");
    std::mem::forget((w, ctx));
}

/// iri-string's validator (a third-party parser; even on a concrete URL it does not finish within
/// 10 minutes / 7 GB) is replaced by acceptance: the two URLs below are valid RFC 3986 URIs.
pub fn stub_iri_validate_ok<S: iri_string::spec::Spec>(_s: &str) -> Result<(), iri_string::validate::Error> {
    Ok(())
}

#[kani::proof]
#[kani::unwind(50)]
#[kani::stub(iri_string::validate::iri, stub_iri_validate_ok)]
fn c10_url_plain() {
    url_text_is_escaped("http://h/c")
}

#[kani::proof]
#[kani::unwind(50)]
#[kani::stub(iri_string::validate::iri, stub_iri_validate_ok)]
fn c10_url_with_metacharacters() {
    url_text_is_escaped("http://h/?a&b='c'")
}

/// C10: Junos `<open-configuration>` instance name, `<commit-configuration>` log message and
/// the XPath `select` attribute of a `<get-config>` filter.
#[cfg(feature = "junos")]
#[kani::proof]
#[kani::unwind(50)]
fn c10_junos_texts_and_xpath() {
    use crate::message::rpc::operation::junos::{CommitConfiguration, OpenConfiguration};
    let ctx = concrete_junos_ctx();
    let txt = any_text2();
    let which: u8 = kani::any();
    kani::assume(which < 3);
    wlog::reset_log();
    let mut w = quick_xml::Writer::new(Vec::new());
    let ok = match which {
        0 => match new_decomposed::<OpenConfiguration, _>(&ctx, |b| b.ephemeral(Some(&txt)).finish()) {
            Ok(op) => op.write_xml(&mut w).is_ok(),
            Err(()) => false,
        },
        1 => match new_decomposed::<CommitConfiguration, _>(&ctx, |b| b.with_log_message(&txt).finish()) {
            Ok(op) => op.write_xml(&mut w).is_ok(),
            Err(()) => false,
        },
        _ => match new_decomposed::<GetConfig<Opaque>, _>(&ctx, |b| b.source(Datastore::Running)?.filter(Some(Filter::XPath(txt.clone())))?.finish()) {
            Ok(op) => op.write_xml(&mut w).is_ok(),
            Err(()) => false,
        },
    };
    assert!(ok, "C10: request could not be built / written");
    let (carried, raw) = carried_escaped(&txt, which == 2);
    assert!(!raw, "C10: text-valued parameter written through the raw path");
    assert!(carried, "C10: text-valued parameter does not reach the message escaped with its exact value");
    kani::cover!(which == 1, "log message");
    kani::cover!(which == 2, "xpath select attribute");
    std::mem::forget((w, txt, ctx));
}
